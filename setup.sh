#!/bin/sh
# offline setup: nothing to compile (TLA+ is interpreted); parse every module as a smoke test
cd "$(dirname "$0")" || exit 1
mkdir -p out evidence
rc=0
for f in spec/*.tla spec/apalache/*.tla; do
  ( cd "$(dirname "$f")" && tla-sany "$(basename "$f")" >/dev/null 2>&1 ) || { echo "SANY failed on $f"; rc=1; }
done
/venv/bin/python -c "import sys; sys.path[:0]=['/verif','/repo']; import harness.main, PyXAB; print('harness ok, PyXAB from', PyXAB.__file__)" || rc=1
exit $rc
