import re,sys
for f in sys.argv[1:]:
    src=open(f).read()
    out=re.sub(r'"""(.|\n)*?"""','',src)
    print('#### ',f)
    lines=src.split('\n')
    # keep line numbers: map by re-scan
    import io,tokenize
    doc=set()
    for m in re.finditer(r'"""(.|\n)*?"""',src):
        a=src.count('\n',0,m.start()); b=src.count('\n',0,m.end())
        doc.update(range(a,b+1))
    for i,l in enumerate(lines):
        if i in doc or not l.strip(): continue
        print(f'{i+1:4d} {l}')
