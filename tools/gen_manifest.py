#!/usr/bin/env python3
"""Writes /verif/MANIFEST.json from the table below (single source of truth for the interface)."""
import json, os
V = os.path.dirname(os.path.dirname(os.path.abspath(__file__)))
PROPS = [json.loads(l)["id"] for l in open(os.path.join(V, "properties.jsonl"))]
CLAIMED = {
 "C02": dict(technique="TLA+ spec (PartitionTree) model-checked with TLC on lattice models + TLC trace validation of the real partition classes (rank-coded floats) + replay of TLC behaviours",
             text="Exhaustive TLC exploration of lattice models of all five partition classes (every split dimension, every admissible cut vector incl. end points, every expansion order) establishes tiling for the design; every make_children executed by the implementation (direct sessions on float boxes, TLC behaviours replayed with scripted RNG, all algorithm runs) is validated by TLC against the same Tiling/CutsOK operators.",
             note="Trusted: TLC, the recorder's rank coding (strictly monotone, so order/equality statements transfer exactly to the floats) and its exact rational computation of midpoint/width deviations in ulps.  Small-scope for the exhaustive part (<= 17 cells).", ref="5/C02"),
 "C03": dict(technique="TLA+ spec (PartitionTree.MkB / StructOK) model-checked with TLC + TLC trace validation of every make_children event + replay of TLC interleavings into the real classes",
             text="TLC enumerates every interleaving of deepen/make_children(leaf, documented flag) on small trees with StructOK as invariant; conformance replays those interleavings into the real classes and validates every structural change made by direct sessions and by all algorithms against MkB (fresh ids, index law, exactly one child list changes, landing layer, depth counter), with StructOK evaluated on initial and final trees.",
             note="Trusted: TLC, the recorder's full-graph diff (cells that are neither listed nor reachable cannot be observed).  Small-scope for the exhaustive part.", ref="5/C03"),
}
CLAIMED.update({
 "C01": dict(technique="TLA+ Session/PartitionTree spec: TLC trace validation of ask/tell sessions over the configuration matrix (rank-coded coordinates) + TLC invariant AllInsideRoot on lattice models",
             text="The Session trace spec has no action for an exception, a hang, a non-point or a point outside the user's box; TLC validates every event of several hundred sessions spanning all 14 algorithms (and wrappers over each base learner) x all partition classes x dimensions x boxes x parameter draws x reward patterns, and model-checks that every cell any partition can create lies inside the root box.",
             note="Sampled configurations, not all; coordinates are rank coded so the box test is exact for the floats.  A call that does not return within 30 s counts as a hang.  Known findings F7, F9, F11 (known_findings.json).", ref="5/C01"),
 "C09": dict(technique="TLA+ spec GPO.tla model-checked with TLC for a grid of (N, half) + inductive invariant of the schedule's counter abstraction (APA_GPO.tla, N and H symbolic) discharged by Apalache + TLC trace validation of GPO/PCT/VPCT sessions observed through a recording base-learner subclass",
             text="The published schedule is a small reward-independent counter machine: TLC explores it exhaustively per (N, half) with the C09 statements as invariants, and Trace_Wrap requires the learner constructions/pulls/rewards observed during every public call of the real classes to equal those predicted by the same Pull/Receive operators, rho_i to match the 60-digit table, scores to equal the exact mean of the validation rewards.",
             note="N, half and the rho grid come from harness/consts.py (decimal arithmetic, published formula); half >= 1.  Scores compared at 2^-16.", ref="5/C09"),
 "C10": dict(technique="TLA+ spec POO.tla model-checked with TLC under every threshold oracle (incl. the coded running mean as exact rationals) + TLC trace validation of POO sessions observed through a recording base-learner subclass",
             text="TLC checks, for every threshold oracle in a grid and every short reward history, routing, learners-only-added, grid distinctness, the schedule invariant and that the running mean as coded (with n/N in place of the learner's own count) is the true mean; Trace_Wrap validates real POO runs call by call against the same operators and compares V_reward/Times with the independently recorded per-learner rewards after every round.",
             note="The branch condition enters as a threshold table from harness/consts.py; rho_max >= 0.84 as the property states.", ref="5/C10"),
})
CLAIMED.update({
 "C04": dict(technique="TLA+ specs TreeBandit / SOOFamily / SequOOL / Zooming / POO / StroquOOL (MC_Stro) model-checked with TLC with a history variable + literal replay of enumerated behaviours + TLC trace validation of per-round evidence diffs of the real classes",
             text="TLC explores every reward sequence and tie-break of small T-HOO/HCT/VHCT models with 'evidence of every cell = fold of the history' and 'counts sum to the rounds' as invariants; conformance validates, after every round of real runs, that exactly the credited cells change by (+1, +r, +r^2), reward-list lengths, means and VHCT variances match the exact statistics, and (wrappers) each reward reaches the serving learner or the validation score only.",
             note="Covers all algorithms; StroquOOL: MC_Stro model-checks the schedule as implemented with 'evidence = fold of the history, one sanctioned restart' and its behaviours are replayed literally; in trace validation the schedule is a secondary clause (no listed property speaks about it), credit, the restart and the end of crediting are verdicts.  Grid rewards so that sums are exact.  The index clauses of C05 are soft, so a wrong index does not hide a credit or expansion fault later in the run.", ref="5/C04"),
 "C05": dict(technique="TLA+ spec TreeBandit.tla (fixed-point index, B-law, optimistic descent) model-checked with TLC + TLC trace validation on observed U/B codes with the published formulas recomputed in TLA+ to 5 units of 2^-13",
             text="Design level: exhaustive TLC runs over reward sequences and tie-breaks with B-law / stop-rule invariants and coverage of the 'threshold grew past a split cell' branch.  Code level: every pull of real runs must return the representative of a cell in PullEnds computed from the observed B-values; after every round the U of each touched cell must equal the TLA+ fixed-point evaluation of the published index (constants from 60-digit tables), untouched cells keep their value, and B = min(U, max children B) holds on every cell including the root.",
             note="Formula accuracy limited to Tol (about 6e-4; VHCT width +6%); VHCT's per-cell threshold is used as observed (its formula is model-level only).  Constant tables trusted (harness/consts.py).", ref="5/C05"),
 "C06": dict(technique="TLA+ spec TreeBandit.tla (Grows rule) model-checked with TLC + TLC trace validation of every make_children event of a round against the rule",
             text="TLC checks on small models that every internal cell was split exactly once, by the rule, at the pulled leaf, and T-HOO's depth bound; conformance requires each round of real runs to contain exactly the expansion Grows predicts (none, or the pulled cell if it was a leaf at the pull and the rule held), inside receive_reward only, with fresh children.",
             note="Thresholds from the 60-digit tables; VHCT per-cell thresholds as observed.", ref="5/C06"),
})
CLAIMED.update({
 "C07": dict(technique="TLA+ specs SOOFamily / SequOOL / StroquOOL / GPO / POO (recommendation sets) model-checked with TLC + TLC trace validation of get_last_point against the specification's ledger of evaluated cells",
             text="The specifications define the admissible recommendations (best evaluated cell; deepest-level cell of maximal exact mean; best validated point; best-scoring learner) over their own state, in which evaluation is recorded independently of the library's reward fields; TLC validates every get_last_point of real runs - issued after the loop and at intermediate rounds, on all-negative, all-equal and tied grid histories - against those sets, and model-checks that they are well defined on all reachable states of the small models.",
             note="Grid rewards; comparisons exact (integers / cross-multiplied rationals).", ref="5/C07"),
 "C08": dict(technique="TLA+ spec SOOFamily.tla (sweep as micro-steps with cursor <<h, vmax>>) model-checked with TLC + replay of all enumerated behaviours + TLC trace validation of every expansion / hand-out of real SOO, StoSOO, DOO runs",
             text="TLC explores the micro-step model (begin / expand / hand out / receive) for K in {2,3}, depth caps and k, all reward sequences incl. ties and negatives, with evaluation caps, expand-only-evaluated, depth cap, no-stuck and the expansion rule as (action) invariants; the implementation is run on every enumerated reward sequence and must literally produce one of the enumerated behaviours; Trace_SOO validates each make_children and each handed-out cell of larger real runs against Point() at the sweep cursor, StoSOO's b formula to 5 units of 2^-13 and DOO's b - reward as a function of depth.",
             note="Note: PyXAB's SOO restarts its sweep at every pull, so the per-sweep threshold vmax never binds there; the spec states the rule and it holds vacuously.  DOO's default delta must equal the largest squared half-width of the cells currently at that depth (2^-21 relative slack when rewards are float32).  Integer-typed rewards, reached depth caps.", ref="5/C08"),
 "C12": dict(technique="TLA+ spec SequOOL.tla model-checked with TLC (budgets, order, exhaustion) + literal replay of enumerated behaviours + TLC trace validation of real runs",
             text="Purely order-based, hence exact: TLC explores all reward sequences and tie-breaks for hmax in 1..4 with the per-depth budgets, open-best, child-order and frozen-recommendation properties; implementation runs for every enumerated reward sequence must literally be enumerated behaviours; Trace_Seq validates each opening and each handed-out child of runs with n up to 1000 on all partitions, plus runs with 8 children per cell and n = 5000 on a 2^-16 reward grid (layers far wider than their budget).",
             note="hmax = floor(n/H_n) computed with exact rationals.", ref="5/C12"),
})
CLAIMED.update({
 "C11": dict(technique="TLA+ spec Zooming.tla model-checked with TLC on lattice partitions (coverage invariant under every split and hand-over) + TLC trace validation of the arm table of real runs",
             text="TLC explores a lattice model (midpoint binary 1-D/2-D, K-ary, random cuts, dimension-wise binary) over all reward sequences, all maximal-index arms, all splits and all admissible hand-overs with 'every leaf is the cell of exactly one arm that lies inside it' as invariant; Trace_Zoom validates real runs call by call: played arm in Playable, only its statistics change and equal its own history, refinement iff the radius rule (fixed-point band aside), the arm to exactly one containing child and a fresh centre arm for every other child, coverage after every call.",
             note="Index and radius comparisons in fixed point (2^-11) with a 6-unit band in which either outcome is accepted; containment/coverage exact (rank coded).", ref="5/C11"),
 "C13": dict(technique="TLA+ spec VROOM.tla model-checked with TLC (MC_VROOM: every ranking, drawn cell and descent) + replay of its behaviours with scripted NumPy sampling + TLC trace validation of real runs after every pull and reward",
             text="For every pull of real VROOM runs TLC checks that the ranks of each depth are a permutation sorted by the lower confidence value recomputed in TLA+ fixed point, that prob*h*rank = 1/C for every cell and the vector sums to one, and for every reward that the credited cells form a descending path from a ranked cell to the depth cap containing every expansion of the round and the returned point.",
             note="np.random.choice is trusted to honour the vector.  Band of 6 units (2^-12) on the order test.", ref="5/C13"),
 "C14": dict(technique="TLA+ spec MC_Schedule (interleavings of two protocol automata) enumerated/simulated by TLC, executed on real instances; lock-step trace comparison by TLC (Trace_Pair); domain-unchanged clause of Trace_Session",
             text="TLC enumerates all interleavings of two short sessions and simulates long ones; each is executed with two real instances whose traces must equal their solo traces event by event; every algorithm is also run in two fresh interpreters with different PYTHONHASHSEED and compared; the user's domain list must be deep-equal afterwards.",
             note="Isolation part on partitions that do not consume the shared NumPy stream meaningfully (1-D), as the property states.  Comparison on points, cells and structural events.", ref="5/C14"),
 "C15": dict(technique="TLA+ spec MC_Schedule (query schedules) enumerated/simulated by TLC + lock-step trace comparison by TLC (Trace_Pair) of relabelled / queried runs",
             text="Runs with time labels t0+i (t0 = 0, 17) are compared with the t0 = 1 run for all 12 listed algorithms; all schedules of 0..2 recommendation queries after each of 4 rounds (and simulated long schedules) are executed on T_HOO/HCT/VHCT/Zooming/POO and compared, queries dropped, with the query-free run.",
             note="StoSOO / StroquOOL read the time argument by design and are excluded, as in the property.", ref="5/C15"),
 "C16": dict(technique="TLA+ spec MC_Affine (partition step commutes with affine maps) model-checked with TLC + metamorphic pairs (box, affine image) of real runs compared in lock step by TLC (Trace_Pair) on rank-coded traces",
             text="Each algorithm x partition is run on a box and on its image under power-of-two scalings, dyadic translations (exact mode: identical encoded traces) and generic affine maps (positions within 3e-9 of the box, identical cells/expansions); Zooming only under exact maps, DOO's default delta only under translations.",
             note="Sampled configurations; exact equality demanded only where the map commutes with the float arithmetic of the partition.", ref="5/C16"),
})
NA_REASON = {
 "C17": "upper bounds of transcendental real functions over a continuum: an enclosure argument; TLA+/TLC has no reals or transcendental functions (DESIGN.md 5/C17)",
}
checks = []
for p in PROPS:
    if p in CLAIMED:
        c = CLAIMED[p]
        checks.append({
            "property_id": p,
            "quick_cmd": "./check %s --tier quick" % p,
            "thorough_cmd": "./check %s --tier thorough" % p,
            "evidence_file": "/verif/evidence/%s.json" % p,
            "replay_cmd_template": "./check %s --replay {path}" % p,
            "engine": "tlc",
            "level_claimed": {"category": "model_checking", "text": c["text"], "design_ref": "DESIGN.md " + c["ref"]},
            "level_note": c["note"],
            "technique": c["technique"],
        })
na = [{"property_id": p, "reason": NA_REASON.get(p, "check not built yet in this round (planned, see DESIGN.md section 5)")} for p in PROPS if p not in CLAIMED]
m = {
 "version": 1,
 "setup_cmd": "./setup.sh",
 "hooks": {"guard": "PYXAB_VERIF_TRACE", "enable": "no source hooks: the recorder wraps Partition.make_children per instance and drives the public API from outside (harness/recorder.py)", "baseline_off_cmd": "cd /repo && /venv/bin/python -m pytest -q -p no:cacheprovider --timeout=900", "source_commits": [], "add_only": True},
 "engines": [{"name": "tlc", "path": "/verif/spec", "serves_properties": sorted(CLAIMED), "kind_free_text": "explicit TLA+ specification, TLC exhaustive model checking, TLC batch trace validation, replay of TLC behaviours"},
             {"name": "apalache", "path": "/verif/spec/apalache", "serves_properties": ["C02", "C09"], "kind_free_text": "symbolic one-step tiling obligations (APA_Tiling) and the inductive invariant of the GPO schedule for symbolic N, H (APA_GPO); both inside the TLC-based checks of C02 / C09"}],
 "checks": checks,
 "not_applicable": na,
 "notes": "All checks: exit 0 = held, 1 = VIOLATION line, 2 = machinery failure.  Known findings: /verif/known_findings.json.",
}
json.dump(m, open(os.path.join(V, "MANIFEST.json"), "w"), indent=1)
print("claimed", sorted(CLAIMED), "n/a", [x["property_id"] for x in na])
