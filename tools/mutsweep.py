#!/usr/bin/env python3
"""Systematic mutation sweep (complements the sub-agents' seeded changes).

  tools/mutsweep.py --n 60 --seed 1 --jobs 2 --out out/mutsweep_1.jsonl [--files 'algos/(HCT|HOO)'] [--repo /repo]

For each sampled first-order mutant (AST operators below) of a library file: write it into a scratch git worktree of the
repository (never /repo itself), run the unedited test suite; if the 124 tests still pass, run the quick checks of the
properties anchored in that file (VERIF_REPO=<worktree>) until one reports a VIOLATION.  One JSON line per mutant:
killed-by-tests / caught (check, clause) / survived (to be read by hand: equivalent mutant or a gap) / machinery (exit 2,
always a defect of the harness).  Worktrees are removed at the end."""
import argparse, ast, copy, json, os, random, re, subprocess, sys, time
from concurrent.futures import ThreadPoolExecutor

V = os.path.dirname(os.path.dirname(os.path.abspath(__file__)))
FILE_CHECKS = [
    (r"algos/HOO\.py", ["C05", "C06", "C04", "C01"]),
    (r"algos/HCT\.py", ["C05", "C06", "C04", "C01"]),
    (r"algos/VHCT\.py", ["C05", "C06", "C04", "C01"]),
    (r"algos/SOO\.py", ["C08", "C07", "C04", "C01"]),
    (r"algos/StoSOO\.py", ["C08", "C07", "C04", "C01"]),
    (r"algos/DOO\.py", ["C08", "C07", "C04", "C01"]),
    (r"algos/SequOOL\.py", ["C12", "C07", "C04", "C01"]),
    (r"algos/StroquOOL\.py", ["C04", "C07", "C01"]),
    (r"algos/VROOM\.py", ["C13", "C04", "C01"]),
    (r"algos/Zooming\.py", ["C11", "C04", "C01"]),
    (r"algos/POO\.py", ["C10", "C07", "C01"]),
    (r"algos/(GPO|PCT|VPCT)\.py", ["C09", "C07", "C01"]),
    (r"partition/", ["C02", "C03", "C01"]),
]
CMP = {ast.Lt: ast.LtE, ast.LtE: ast.Lt, ast.Gt: ast.GtE, ast.GtE: ast.Gt, ast.Eq: ast.NotEq, ast.NotEq: ast.Eq, ast.Is: ast.IsNot, ast.IsNot: ast.Is}
CMP2 = {ast.Lt: ast.Gt, ast.Gt: ast.Lt, ast.LtE: ast.GtE, ast.GtE: ast.LtE}
BIN = {ast.Add: ast.Sub, ast.Sub: ast.Add, ast.Mult: ast.Div, ast.Div: ast.Mult, ast.FloorDiv: ast.Div, ast.Pow: ast.Mult, ast.Mod: ast.FloorDiv}


def sh(cmd, cwd=None, env=None, timeout=3000):
    try:
        p = subprocess.run(cmd, shell=True, cwd=cwd, env=env, stdout=subprocess.PIPE, stderr=subprocess.STDOUT, text=True, timeout=timeout)
        return p.returncode, p.stdout
    except subprocess.TimeoutExpired as e:
        return 124, (e.stdout or b"").decode() if isinstance(e.stdout, bytes) else (e.stdout or "")


def in_docstring_or_doc(node):
    return False


def candidates(tree):
    """list of (node index in ast.walk order, operator name, variant)"""
    out = []
    for i, n in enumerate(ast.walk(tree)):
        if isinstance(n, ast.Compare) and len(n.ops) == 1:
            if type(n.ops[0]) in CMP:
                out.append((i, "cmp-boundary", 0))
            if type(n.ops[0]) in CMP2:
                out.append((i, "cmp-reverse", 0))
        elif isinstance(n, ast.BinOp) and type(n.op) in BIN:
            out.append((i, "binop", 0))
        elif isinstance(n, ast.BoolOp):
            out.append((i, "boolop", 0))
        elif isinstance(n, ast.UnaryOp) and isinstance(n.op, ast.Not):
            out.append((i, "not-removed", 0))
        elif isinstance(n, ast.Constant) and isinstance(n.value, (int, float)) and not isinstance(n.value, bool):
            out.append((i, "const+1", 0))
            if n.value != 0:
                out.append((i, "const-1", 0))
        elif isinstance(n, ast.AugAssign):
            out.append((i, "augassign-dropped", 0))
        elif isinstance(n, ast.Expr) and isinstance(n.value, ast.Call):
            out.append((i, "call-stmt-dropped", 0))
        elif isinstance(n, ast.Assign) and len(n.targets) == 1 and isinstance(n.targets[0], ast.Attribute):
            out.append((i, "attr-assign-dropped", 0))
        elif isinstance(n, ast.If) and n.orelse == []:
            out.append((i, "if-always", 0))
            out.append((i, "if-never", 0))
        elif isinstance(n, (ast.Break, ast.Continue)):
            out.append((i, "break-continue", 0))
        elif isinstance(n, ast.Subscript) and isinstance(n.slice, ast.UnaryOp) and isinstance(n.slice.op, ast.USub):
            out.append((i, "neg-index", 0))
    return out


def mutate(src, idx, op):
    tree = ast.parse(src)
    target = None
    parents = {}
    for i, n in enumerate(ast.walk(tree)):
        for c in ast.iter_child_nodes(n):
            parents[id(c)] = n
        if i == idx:
            target = n
    n = target
    before = ast.unparse(n)
    line = getattr(n, "lineno", 0)

    def replace_stmt(new):
        p = parents[id(n)]
        for f in ("body", "orelse", "finalbody"):
            lst = getattr(p, f, None)
            if isinstance(lst, list) and n in lst:
                lst[lst.index(n)] = new
                return True
        return False
    if op == "cmp-boundary":
        n.ops = [CMP[type(n.ops[0])]()]
    elif op == "cmp-reverse":
        n.ops = [CMP2[type(n.ops[0])]()]
    elif op == "binop":
        n.op = BIN[type(n.op)]()
    elif op == "boolop":
        n.op = ast.Or() if isinstance(n.op, ast.And) else ast.And()
    elif op == "not-removed":
        p = parents[id(n)]
        for f, v in ast.iter_fields(p):
            if v is n:
                setattr(p, f, n.operand)
            elif isinstance(v, list) and n in v:
                v[v.index(n)] = n.operand
    elif op == "const+1":
        n.value = n.value + 1
    elif op == "const-1":
        n.value = n.value - 1
    elif op in ("augassign-dropped", "call-stmt-dropped", "attr-assign-dropped"):
        if not replace_stmt(ast.Pass()):
            return None
    elif op == "if-always":
        n.test = ast.Constant(True)
    elif op == "if-never":
        n.test = ast.Constant(False)
    elif op == "break-continue":
        if not replace_stmt(ast.Continue() if isinstance(n, ast.Break) else ast.Break()):
            return None
    elif op == "neg-index":
        n.slice = ast.UnaryOp(ast.USub(), ast.Constant(n.slice.operand.value + 1)) if isinstance(n.slice.operand, ast.Constant) and isinstance(n.slice.operand.value, int) else n.slice
    ast.fix_missing_locations(tree)
    new = ast.unparse(tree)
    if new == ast.unparse(ast.parse(src)):
        return None
    after = ast.unparse(n) if op not in ("augassign-dropped", "call-stmt-dropped", "attr-assign-dropped", "break-continue", "not-removed") else op
    return new, line, before[:160], after[:160]


def one(job):
    k, wt, rel, idx, op, args = job
    path = os.path.join(wt, rel)
    src = open(os.path.join(args.repo, rel)).read()
    rec = {"k": k, "file": rel, "op": op}
    try:
        m = mutate(src, idx, op)
    except Exception as e:
        rec["status"] = "mutation-failed %r" % e
        return rec
    if m is None:
        rec["status"] = "no-change"
        return rec
    new, line, before, after = m
    rec.update(line=line, before=before, after=after)
    open(path, "w").write(new)
    try:
        env = dict(os.environ, PYTHONPATH=wt, PYTHONHASHSEED="0")
        rc, out = sh("timeout 900 /venv/bin/python -m pytest -q -x -p no:cacheprovider --timeout=300 PyXAB/tests 2>&1 | tail -1", cwd=wt, env=env, timeout=1000)
        rec["tests"] = out.strip()[-80:]
        if "124 passed" not in out:
            rec["status"] = "killed-by-tests"
            return rec
        checks = next(c for pat, c in FILE_CHECKS if re.search(pat, rel))
        env = dict(os.environ, VERIF_REPO=wt, VERIF_SCRATCH="mut_%d" % k)
        rec["checks"] = {}
        rec["status"] = "survived"
        for c in checks:
            t = time.time()
            rc, out = sh("./check %s" % c, cwd=V, env=env, timeout=2400)
            viol = [l for l in out.splitlines() if l.startswith("VIOLATION")]
            mm = re.search(r'"clause": "([^"]*)"', viol[0]) if viol else None
            rec["checks"][c] = {"rc": rc, "clause": mm.group(1) if mm else "", "s": round(time.time() - t)}
            if rc == 1:
                rec["status"] = "caught"
                break
            if rc != 0:
                rec["status"] = "machinery"
                rec["checks"][c]["tail"] = out[-600:]
        sh("rm -rf %s" % os.path.join(V, "out", "mut_%d" % k))
        return rec
    finally:
        open(path, "w").write(src)


def main():
    ap = argparse.ArgumentParser()
    ap.add_argument("--n", type=int, default=40)
    ap.add_argument("--seed", type=int, default=1)
    ap.add_argument("--jobs", type=int, default=2)
    ap.add_argument("--out", default="out/mutsweep.jsonl")
    ap.add_argument("--files", default=".")
    ap.add_argument("--ops", default=".")
    ap.add_argument("--repo", default=os.environ.get("VP_RUN_REPO", "/repo"))
    args = ap.parse_args()
    rnd = random.Random(args.seed)
    files = []
    for d in ("PyXAB/algos", "PyXAB/partition"):
        for f in sorted(os.listdir(os.path.join(args.repo, d))):
            rel = os.path.join(d, f)
            if f.endswith(".py") and f not in ("__init__.py", "Algo.py") and re.search(args.files, rel) and any(re.search(p, rel) for p, _ in FILE_CHECKS):
                files.append(rel)
    pool = []
    for rel in files:
        tree = ast.parse(open(os.path.join(args.repo, rel)).read())
        cs = [(rel, i, op) for i, op, _ in candidates(tree) if re.search(args.ops, op)]
        pool.append(cs)
    print("candidates:", {f: len(c) for f, c in zip(files, pool)}, flush=True)
    picks = []
    while len(picks) < args.n and any(pool):
        for cs in pool:
            if cs and len(picks) < args.n:
                picks.append(cs.pop(rnd.randrange(len(cs))))
    wts = []
    for j in range(args.jobs):
        wt = "/tmp/mutwt_%d_%d" % (args.seed, j)
        sh("git -C /repo worktree remove --force %s" % wt)
        rc, out = sh("git -C /repo worktree add -q %s HEAD" % wt)
        if rc:
            raise SystemExit(out)
        wts.append(wt)
    os.makedirs(os.path.dirname(os.path.abspath(args.out)), exist_ok=True)
    fo = open(args.out, "a")
    try:
        import queue
        free = queue.Queue()
        for w in wts:
            free.put(w)

        def run(kp):
            k, (rel, idx, op) = kp
            wt = free.get()
            try:
                return one((args.seed * 10000 + k, wt, rel, idx, op, args))
            finally:
                free.put(wt)
        with ThreadPoolExecutor(args.jobs) as ex:
            for rec in ex.map(run, enumerate(picks)):
                fo.write(json.dumps(rec) + "\n")
                fo.flush()
                print(rec.get("status"), rec["file"], rec.get("line"), rec["op"], rec.get("before"), "->", rec.get("after"), {c: (r["rc"], r["clause"]) for c, r in rec.get("checks", {}).items()}, flush=True)
    finally:
        for w in wts:
            sh("git -C /repo worktree remove --force %s" % w)


main()
