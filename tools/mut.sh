#!/bin/bash
# usage: mut.sh "<python-re-sub-pattern>" "<replacement>" <repo file> <check ids...>   -- applies, runs checks, reverts
pat="$1"; rep="$2"; file="$3"; shift 3
cd /repo && git diff --quiet || { echo "repo dirty"; exit 2; }
python3 - "$pat" "$rep" "$file" <<'PY'
import re,sys
pat,rep,f=sys.argv[1:4]
s=open('/repo/'+f).read()
n=len(re.findall(pat,s))
s2=re.sub(pat,rep,s,count=1)
assert s2!=s, "no change"
open('/repo/'+f,'w').write(s2)
print("mutated",f,"matches",n)
PY
[ $? -eq 0 ] || exit 2
git -C /repo diff | grep '^[+-] ' 
( cd /repo && timeout 600 /venv/bin/python -m pytest -q -x -p no:cacheprovider PyXAB/tests 2>&1 | tail -1 )
for c in "$@"; do
  out=$(cd /verif && ./check $c 2>&1); rc=$?
  echo "== $c rc=$rc $(echo "$out" | grep -c '^VIOLATION') violations; first: $(echo "$out" | grep '^VIOLATION' | head -1 | grep -o '"clause": "[^"]*"')"
done
git -C /repo checkout -- .
