#!/usr/bin/env python3
"""tools/seedprompt.py <pid> <suffix> [extra text file] : create scratch worktree /tmp/seed_<pid><suffix> of /repo HEAD and
print the sub-agent prompt (tools/seed_prompt.txt filled in).  Nothing from /verif but the property text goes in."""
import json, os, subprocess, sys
pid, suf = sys.argv[1], sys.argv[2]
extra = open(sys.argv[3]).read() if len(sys.argv) > 3 else ""
wt = "/tmp/seed_%s%s" % (pid, suf)
subprocess.run("git -C /repo worktree remove --force %s 2>/dev/null; git -C /repo worktree add -q %s HEAD" % (wt, wt), shell=True, check=True)
for l in open("/verif/properties.jsonl"):
    p = json.loads(l)
    if p["id"] == pid:
        break
t = open("/verif/tools/seed_prompt.txt").read()
print(t.format(wt=wt, pid=pid, title=p["title"], statement=p["statement"], quant=p["quantifier"]["text"], extra=extra))
