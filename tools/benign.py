#!/usr/bin/env python3
"""Property-preserving changes (benign/<name>/patch.diff, written by an independent sub-agent that was given the 17 property
texts): no check may raise an alarm on them.   tools/benign.py run <name> <checks...>   applies the change to a scratch worktree
of /repo, runs the checks with VERIF_REPO=<worktree>, records rc / first clause in benign/<name>/result.json."""
import json, os, re, subprocess, sys, time
V = os.path.dirname(os.path.dirname(os.path.abspath(__file__)))


def sh(cmd, cwd=None, env=None, timeout=3000):
    p = subprocess.run(cmd, shell=True, cwd=cwd, env=env, stdout=subprocess.PIPE, stderr=subprocess.STDOUT, text=True, timeout=timeout)
    return p.returncode, p.stdout


name, checks = sys.argv[2], sys.argv[3:]
d = os.path.join(V, "benign", name)
wt = "/tmp/benignwt_%s" % name
sh("git -C /repo worktree remove --force %s" % wt)
rc, out = sh("git -C /repo worktree add -q %s HEAD" % wt)
assert rc == 0, out
rp = os.path.join(d, "result.json")
res = json.load(open(rp)) if os.path.exists(rp) else {}
try:
    rc, out = sh("git -C %s apply %s/patch.diff" % (wt, d))
    assert rc == 0, out
    rc, out = sh("/venv/bin/python -m pytest -q -p no:cacheprovider PyXAB/tests 2>&1 | tail -1", cwd=wt, env=dict(os.environ, PYTHONPATH=wt))
    res["tests"] = out.strip()
    env = dict(os.environ, VERIF_REPO=wt, VERIF_SCRATCH="benign_" + name)
    for c in checks:
        t = time.time()
        rc, out = sh("./check %s" % c, cwd=V, env=env)
        viol = [l for l in out.splitlines() if l.startswith("VIOLATION")]
        m = re.search(r'"clause": "([^"]*)"', viol[0]) if viol else None
        res[c] = {"rc": rc, "violations": len(viol), "first_clause": m.group(1) if m else "", "wall_s": round(time.time() - t)}
        if rc:
            res[c]["tail"] = out[-1500:]
        print(name, c, rc, res[c]["first_clause"], flush=True)
finally:
    sh("git -C /repo worktree remove --force %s" % wt)
    sh("rm -rf %s" % os.path.join(V, "out", "benign_" + name))
json.dump(res, open(rp, "w"), indent=1)
