#!/usr/bin/env python3
"""Seeded changes: import from a sub-agent's worktree, confirm (tests pass, demo fails with / passes without),
run /verif checks against each (applied to /repo, always reverted), write meta.json and RESULTS.md."""
import json, os, shutil, subprocess, sys, time
V = "/verif"
SD = os.path.join(V, "seeded")


def sh(cmd, cwd=None, env=None, timeout=3000):
    p = subprocess.run(cmd, shell=True, cwd=cwd, env=env, stdout=subprocess.PIPE, stderr=subprocess.STDOUT, text=True, timeout=timeout)
    return p.returncode, p.stdout


def confirm(name, wt):
    """in the scratch worktree wt (clean HEAD): demo passes; with patch: tests pass, demo fails"""
    d = os.path.join(SD, name)
    env = dict(os.environ, PYTHONPATH=wt)
    res = {}
    rc, out = sh("git -C %s status --porcelain -- PyXAB" % wt)
    if out.strip():
        sh("git -C %s checkout -- PyXAB" % wt)
    rc, out = sh("/venv/bin/python %s/demo.py" % d, cwd=wt, env=env, timeout=600)
    res["demo_clean_rc"] = rc
    rc, out = sh("git -C %s apply %s/patch.diff" % (wt, d))
    res["apply_rc"] = rc
    rc, out = sh("/venv/bin/python -m pytest -q -p no:cacheprovider PyXAB/tests 2>&1 | tail -1", cwd=wt, env=env, timeout=1200)
    res["tests"] = out.strip()
    rc, out = sh("/venv/bin/python %s/demo.py" % d, cwd=wt, env=env, timeout=600)
    res["demo_patched_rc"] = rc
    res["demo_patched_out"] = out.strip()[-300:]
    sh("git -C %s checkout -- PyXAB" % wt)
    res["confirmed"] = res["demo_clean_rc"] == 0 and res["demo_patched_rc"] == 1 and res["tests"].startswith("124 passed") and res["apply_rc"] == 0
    return res


def run_checks(name, checks):
    """apply the change to a scratch worktree of /repo (never to /repo itself) and run the checks against it"""
    d = os.path.join(SD, name)
    wt = "/tmp/seedwt_%s" % name
    sh("git -C /repo worktree remove --force %s" % wt)
    rc, out = sh("git -C /repo worktree add -q %s HEAD" % wt)
    if rc:
        raise SystemExit("cannot create worktree: " + out)
    res = {}
    try:
        rc, out = sh("git -C %s apply %s/patch.diff" % (wt, d))
        if rc:
            raise SystemExit("patch does not apply: " + out)
        env = dict(os.environ, VERIF_REPO=wt, VERIF_SCRATCH="seeded_" + name)
        for c in checks:
            t = time.time()
            rc, out = sh("./check %s" % c, cwd=V, env=env, timeout=3000)
            viol = [l for l in out.splitlines() if l.startswith("VIOLATION")]
            clause = ""
            if viol:
                import re
                m = re.search(r'"clause": "([^"]*)"', viol[0]) or re.search(r'"invariant": "([^"]*)"', viol[0])
                clause = m.group(1) if m else ""
            res[c] = {"rc": rc, "violations": len(viol), "first_clause": clause, "wall_s": round(time.time() - t)}
            if rc == 2:
                res[c]["machinery"] = out[-400:]
    finally:
        sh("git -C /repo worktree remove --force %s" % wt)
        sh("rm -rf %s" % os.path.join(V, "out", "seeded_" + name))
    return res


def main():
    cmd = sys.argv[1]
    if cmd == "import":
        wt, prop = sys.argv[2], sys.argv[3]
        prefix = sys.argv[4] if len(sys.argv) > 4 else prop
        for ab in ("A", "B"):
            src = os.path.join(wt, "_seed", ab)
            if not os.path.isdir(src):
                continue
            name = "%s_%s" % (prefix, ab)
            dst = os.path.join(SD, name)
            os.makedirs(dst, exist_ok=True)
            for f in ("patch.diff", "demo.py", "notes.md"):
                if os.path.exists(os.path.join(src, f)):
                    shutil.copy(os.path.join(src, f), os.path.join(dst, f))
            res = confirm(name, wt)
            meta = {"name": name, "breaks_property": prop, "source": "independent sub-agent given only the property text and a scratch worktree", "confirmation": res,
                    "needs_to_manifest": open(os.path.join(dst, "notes.md")).read()[:1500] if os.path.exists(os.path.join(dst, "notes.md")) else ""}
            json.dump(meta, open(os.path.join(dst, "meta.json"), "w"), indent=1)
            print(name, "confirmed" if res["confirmed"] else "NOT CONFIRMED", res["tests"], res["demo_clean_rc"], res["demo_patched_rc"])
    elif cmd == "run":
        name = sys.argv[2]
        checks = sys.argv[3:]
        mp = os.path.join(SD, name, "meta.json")
        meta = json.load(open(mp))
        res = run_checks(name, checks)
        meta.setdefault("checks_run", {}).update(res)
        meta["caught_by"] = sorted(c for c, r in meta["checks_run"].items() if r["rc"] == 1)
        meta["what_was_run"] = "patch applied to a scratch worktree of /repo (git worktree add; git apply), checks run with VERIF_REPO=<worktree> ./check <id> (quick tier), worktree removed"
        json.dump(meta, open(mp, "w"), indent=1)
        print(name, {c: (r["rc"], r["first_clause"]) for c, r in res.items()})
    elif cmd == "runall":
        # every confirmed change against the check of the property it targets (plus the checks that caught it before)
        for name in sorted(os.listdir(SD)):
            mp = os.path.join(SD, name, "meta.json")
            if not os.path.exists(mp):
                continue
            meta = json.load(open(mp))
            checks = sorted(set([meta["breaks_property"]] + meta.get("caught_by", [])))
            res = run_checks(name, checks)
            meta["checks_run"] = dict(meta.get("checks_run", {}), **res)
            meta["caught_by"] = sorted(c for c, r in meta["checks_run"].items() if r["rc"] == 1)
            json.dump(meta, open(mp, "w"), indent=1)
            print(name, {c: (r["rc"], r["first_clause"]) for c, r in res.items()}, flush=True)
    elif cmd == "results":
        rows = []
        for name in sorted(os.listdir(SD)):
            mp = os.path.join(SD, name, "meta.json")
            if not os.path.exists(mp):
                continue
            m = json.load(open(mp))
            cr = m.get("checks_run", {})
            rows.append("| %s | %s | %s | %s | %s |" % (name, m["breaks_property"], "yes" if m["confirmation"]["confirmed"] else "no",
                        ", ".join("%s (`%s`)" % (c, cr[c]["first_clause"]) for c in m.get("caught_by", [])) or "—",
                        ", ".join(c for c, r in cr.items() if r["rc"] != 1) or "—"))
        open(os.path.join(SD, "RESULTS.md"), "w").write("# Seeded changes and the checks that catch them\n\nGenerated by `tools/seeded.py results`.  Each change passes the 124 repository tests; its demo fails with the change and passes without.\n\n| change | breaks | confirmed | caught by (first clause) | run but silent |\n|---|---|---|---|---|\n" + "\n".join(rows) + "\n")
        print("\n".join(rows))


main()
