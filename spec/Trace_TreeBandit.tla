-------------------------- MODULE Trace_TreeBandit --------------------------
(***************************************************************************)
(* Trace validation of T_HOO / HCT / VHCT runs against TreeBandit.tla.      *)
(*                                                                         *)
(* Per cell the recorder logs the tuple                                     *)
(*   <<cnt, sum, sq, nrew, mean, U, B, var, tau>>                           *)
(* (counts and exact sums of the grid rewards, fixed-point codes of the    *)
(* library's own mean / U / B / variance, VHCT's per-cell threshold).      *)
(* Decisions (descent, stop rule, B-law, expansion) are checked exactly on  *)
(* the observed codes; the published formulas are checked to Tol units.    *)
(***************************************************************************)
EXTENDS TreeBandit, TraceTree, Json, IOUtils, TLCExt

Traces == JsonDeserialize(IOEnv.TRACE_FILE)
VARIABLES tid, l, T, F, iter, ph, ends, npull, grown, err, done, soft
vars == <<tid, l, T, F, iter, ph, ends, npull, grown, err, done, soft>>
Tr == Traces[tid]
PP == Tr.P
Ev == Tr.ev
Tol == PP.tol

Col(FF, j) == [c \in DOMAIN FF |-> FF[c][j]]
St(TT, FF, it) == [T |-> TT, cnt |-> Col(FF, 1), sum |-> Col(FF, 2), sq |-> Col(FF, 3), U |-> Col(FF, 6), B |-> Col(FF, 7),
                   var |-> Col(FF, 8), tau |-> Col(FF, 9), iter |-> it]
\* apply logged field changes (entries <<cell, f1..f9>>)
ApplyFc(FF, fc) == FoldLeft(LAMBDA acc, x : IF x[1] \in DOMAIN acc THEN [acc EXCEPT ![x[1]] = SubSeq(x, 2, 10)] ELSE acc, FF, fc)
Changed(fc) == {fc[i][1] : i \in DOMAIN fc}

Fresh(x) == x[2] = 0 /\ x[3] = 0 /\ x[4] = 0 /\ x[5] = 0 /\ x[7] = PInf /\ x[8] = PInf

Init == /\ tid \in 1 .. Len(Traces) /\ l = 1 /\ ph = "new" /\ err = "ok" /\ done = FALSE
        /\ T = [n |-> 0] /\ F = <<>> /\ iter = 0 /\ ends = {} /\ npull = 0 /\ grown = <<>> /\ soft = <<>>

\* a base learner driven by POO / GPO: a reward without a preceding pull (or two pulls in a row) is the wrapper
\* crediting a learner for a point it did not propose -- a verdict about the wrapper, not a harness error
ProtoErr == IF Has(PP, "under") THEN "credit.learner-off-protocol" ELSE "protocol"

CallFail(e) == IF Has(e, "hang") THEN "call.hangs" ELSE IF Has(e, "exc") THEN "call.raises"
               ELSE IF e.k \in {"pull", "glp"} /\ e.ptok # 1 THEN "call.not-a-point"
               ELSE IF ~NoStructChange(e) \/ e.pd # T.pdepth THEN "call.struct-change" ELSE "ok"

\* soft clauses met so far: <<clause, event>>, first occurrence of each clause, at most 6
AddSoft(sf, cls, at) ==
  FoldLeft(LAMBDA acc, c : IF c = "ok" \/ Len(acc) >= 6 \/ (\E i \in DOMAIN acc : acc[i][1] = c) THEN acc ELSE Append(acc, <<c, at>>), sf, cls)
SoftString(sf) == FoldLeft(LAMBDA acc, x : (IF acc = "" THEN "" ELSE acc \o "|") \o x[1] \o "@" \o ToString(x[2]), "", sf)

\* ---- initial state -------------------------------------------------------
InitStep(e) ==
  LET T0 == TreeOfInit(e)
      c0 == InitCheck(PP, e)
      K  == Arity(PP)
  IN [T |-> T0, F |-> e.f,
      err |-> IF c0 # "ok" THEN c0
              ELSE IF ~(T0.n = 1 + K /\ Len(T0.kids[1]) = K) THEN "grow.init-shape"      \* the root is split once at construction
              ELSE IF ~(\A c \in 1 .. T0.n : Fresh(<<c>> \o e.f[c])) THEN "grow.init-not-fresh"
              ELSE "ok"]

\* VHCT: where the variance a cell holds is not the variance of its history (C04's soft clause), the index (C05) and the
\* threshold (C06) are judged against the variance of the history as well -- the property speaks of the rewards the cell
\* received, not of whatever the tree recorded.  Never evaluated where recorded and true variance agree.
VarOff(st, c) == st.cnt[c] > 0 /\ AbsI(st.var[c] - VarFx(PP, st, c)) > PP.tolv
HistVar(st) == [st EXCEPT !.var = [c \in DOMAIN st.var |-> IF st.cnt[c] > 0 THEN VarFx(PP, st, c) ELSE st.var[c]]]

\* ---- pull / get_last_point -------------------------------------------------
\* VHCT recomputes the per-cell thresholds at the start of a pull: only column 9 may change
OnlyTauChanges(fc) == \A i \in DOMAIN fc : fc[i][1] \in DOMAIN F /\ SubSeq(fc[i], 2, 9) = SubSeq(F[fc[i][1]], 1, 8)

PullStep(e) ==
  LET F1 == ApplyFc(F, e.fc)
      st == St(T, F1, iter)
      es == PullEnds(PP, st) \cap SeqRange(e.cands)
      tauok == PP.algo # "VHCT" \/ (\A c \in Cells(T) \ {1} : TauVClose(st.tau[c], TauVEst(PP, st, c, Epoch(iter)), TauVX(PP, st, c)))
      sth   == HistVar(st)
      tauhist == PP.algo # "VHCT" \/ (\A c \in Cells(T) \ {1} : VarOff(st, c) =>
                    \/ TauVClose(st.tau[c], TauVEst(PP, sth, c, Epoch(iter)), TauVX(PP, sth, c))
                    \/ AbsI(st.tau[c] - TauVEst(PP, sth, c, Epoch(iter))) <= AbsI(TauVEst(PP, st, c, Epoch(iter)) - TauVEst(PP, sth, c, Epoch(iter))) \div 4)
  IN [F |-> F1, ends |-> es,
      \* C05 next to C06: when the reported thresholds are off the published formula, is the pulled cell still the end of an
      \* optimistic descent under *some* thresholds within tolerance of it?
      \* (both soft: the walk continues on the thresholds the library reports)
      soft |-> << IF ~tauok THEN "grow.threshold-formula" ELSE IF ~tauhist THEN "grow.threshold-variance-not-of-history" ELSE "ok",        \* C06: tau scaled by the variance term, recomputed at every pull
                  IF ~tauok /\ PullEndsBand(PP, st) \cap SeqRange(e.cands) = {} THEN "pull.not-optimistic-under-published-thresholds" ELSE "ok" >>,
      err |-> IF e.fc # <<>> /\ ~(PP.algo = "VHCT" /\ OnlyTauChanges(e.fc)) THEN "stats.pull-mutates"
              ELSE IF es = {} THEN "pull.not-optimistic"         \* C05: returned point is not the representative of an optimistic end cell
              ELSE "ok"]

\* ---- receive_reward -----------------------------------------------------------
Rounds(it) == IF IsHCT(PP) THEN it - 1 ELSE it
CountsOK(FF, it) == IF PP.algo = "THOO" THEN FF[1][1] = Rounds(it)
                    ELSE FoldLeft(LAMBDA a, x : a + x[1], 0, FF) = Rounds(it)

\* VHCT: the variance code carries +-1/2 unit, i.e. up to 1/16 of the variance at its floor 1e-3;
\* the Bernstein width inherits half of that relative error
TolU(s, c, k) == IF PP.algo = "VHCT" /\ s.cnt[c] > 0
                 THEN Tol + ISqrt((2 * s.var[c] * PP.c2ls[k + 1]) \div s.cnt[c]) \div 16 ELSE Tol

RecvCheck(e, e0) ==
  LET r    == e.r
      k    == Epoch(iter)
      st0  == St(T, F, iter)
      F1   == ApplyFc(F, e.fc)
      st1  == St(T, F1, iter)                 \* observed state after the call
      exp  == Credit(PP, st0, e0, r)          \* expected evidence
      cs   == Credited(PP, T, e0)
      leafBefore == \A j \in DOMAIN T.kids[e0] : T.kids[e0][j] > npull
      stB  == [exp EXCEPT !.T = [T EXCEPT !.kids[e0] = IF leafBefore THEN <<>> ELSE @]]   \* evidence after credit, tree as at the pull
      want == IF Grows(PP, stB, e0, k) THEN <<e0>> ELSE <<>>
      tch  == Touched(PP, st0, e0)
  IN
  \* <<hard clause, soft clauses>>.  The credit / statistics clauses (C04) and the index clauses (C05) are soft: the
  \* observed evidence is adopted and every later decision is checked on the observed codes, so the walk goes on and
  \* each property is judged on the whole run -- a wrong reward list must not hide the wrong index it leads to, a wrong
  \* index must not hide a wrong expansion, nor the other way round.  Only the expansion clause (C06) ends the walk.
  << IF grown # want THEN (IF grown = <<>> THEN "grow.missing" ELSE IF want = <<>> THEN "grow.unexpected" ELSE "grow.wrong-cell")   \* C06
     ELSE "ok",
     IF ~(\A c \in Cells(T) : st1.cnt[c] = exp.cnt[c]) THEN "credit.count"            \* C04: exactly the credited cells, +1
     ELSE IF ~(\A c \in Cells(T) : st1.sum[c] = exp.sum[c] /\ st1.sq[c] = exp.sq[c]) THEN "credit.reward"
     ELSE IF ~(\A c \in Cells(T) : F1[c][4] = st1.cnt[c]) THEN "credit.list-length"
     ELSE IF ~(\A c \in cs : AbsI(F1[c][5] - MeanFx(PP, st1, c)) <= 1) THEN "stats.mean"
     ELSE IF ~(\A c \in Cells(T) \ cs : F1[c][5] = F[c][5]) THEN "stats.mean-foreign"
     ELSE IF PP.algo = "VHCT" /\ ~(\A c \in cs : AbsI(F1[c][8] - VarFx(PP, st1, c)) <= PP.tolv) THEN "stats.variance"
     ELSE IF PP.algo = "VHCT" /\ ~(\A c \in Cells(T) \ cs : F1[c][8] = F[c][8]) THEN "stats.variance-foreign"
     ELSE IF ~CountsOK(F1, iter + 1) THEN "credit.total"                                     \* C04: counts sum to the completed rounds
     ELSE "ok",
     IF ~(\A c \in tch : Close(st1.U[c], UVal(PP, st1, c, k), TolU(st1, c, k))) THEN "index.U"          \* C05: published index
     ELSE IF PP.algo = "VHCT" /\ ~(\A c \in tch : VarOff(st1, c) => Close(st1.U[c], UVal(PP, HistVar(st1), c, k), TolU(HistVar(st1), c, k) + TolU(st1, c, k)))
          THEN "index.U-variance-not-of-history"
     ELSE IF ~(\A c \in Cells(T) \ tch : st1.U[c] = st0.U[c]) THEN "index.U-stale"
     ELSE IF ~BLaw(st1) THEN "index.B"                                                      \* C05: B-law on every cell
     ELSE "ok" >>

RecvStep(e) ==
  LET verdicts == {RecvCheck(e, e0) : e0 \in ends}
      rank(v) == (IF v[1] = "ok" THEN 0 ELSE 4) + (IF v[2] = "ok" THEN 0 ELSE 2) + (IF v[3] = "ok" THEN 0 ELSE 1)
      best == CHOOSE v \in verdicts : \A w \in verdicts : rank(v) <= rank(w)
  IN [F |-> ApplyFc(F, e.fc), err |-> best[1], soft |-> <<best[2], best[3]>>]

\* ---- make_children during receive_reward -----------------------------------------
MkStep(e) ==
  LET c == MkCheckEv(PP, T, e, LAMBDA d : F[d][1] > 0) IN
  IF c # "ok" THEN [T |-> T, F |-> F, err |-> c]
  ELSE IF ph # "asked" THEN [T |-> T, F |-> F, err |-> "grow.outside-receive"]
  ELSE IF grown # <<>> THEN [T |-> T, F |-> F, err |-> "grow.second-expansion"]            \* C06: at most one per round
  ELSE IF PP.algo = "THOO" /\ T.dep[e.p] + 1 > MaxI(PP.dbound + 1, 1) THEN [T |-> T, F |-> F, err |-> "grow.depth-bound"]
  ELSE IF ~(Len(e.nf) = Arity(PP) /\ \A j \in DOMAIN e.nf : Fresh(e.nf[j])) THEN [T |-> T, F |-> F, err |-> "grow.not-fresh"]
  ELSE IF e.fc # <<>> THEN [T |-> T, F |-> F, err |-> "stats.changed-in-make-children"]
  ELSE [T |-> MkApply(PP, T, e), F |-> F \o [j \in DOMAIN e.nf |-> SubSeq(e.nf[j], 2, 10)], err |-> "ok"]

Step ==
  /\ ~done /\ err = "ok" /\ l <= Len(Ev)
  /\ LET e == Ev[l] IN
     CASE e.k = "init" ->
            LET r == InitStep(e) IN
            /\ T' = r.T /\ F' = r.F /\ err' = r.err /\ ph' = "told"
            /\ iter' = (IF IsHCT(PP) THEN 1 ELSE 0) /\ UNCHANGED <<ends, npull, grown, soft>>
       [] e.k = "mk" ->
            LET r == MkStep(e) IN
            /\ T' = r.T /\ F' = r.F /\ err' = r.err /\ grown' = Append(grown, e.p)
            /\ UNCHANGED <<iter, ph, ends, npull, soft>>
       [] e.k = "pull" ->
            LET f == CallFail(e) IN
            IF ph # "told" THEN err' = ProtoErr /\ UNCHANGED <<T, F, iter, ph, ends, npull, grown, soft>>
            ELSE IF f # "ok" THEN err' = f /\ UNCHANGED <<T, F, iter, ph, ends, npull, grown, soft>>
            ELSE LET r == PullStep(e) IN
                 /\ F' = r.F /\ ends' = r.ends /\ err' = r.err /\ ph' = "asked" /\ npull' = T.n /\ grown' = <<>>
                 /\ soft' = AddSoft(soft, r.soft, l)
                 /\ UNCHANGED <<T, iter>>
       [] e.k = "glp" ->
            LET f == CallFail(e) IN
            IF f # "ok" THEN err' = f /\ UNCHANGED <<T, F, iter, ph, ends, npull, grown, soft>>
            ELSE LET r == PullStep(e) IN
                 \* get_last_point = one more optimistic descent; nothing the next round reads may change (C15)
                 /\ F' = r.F /\ err' = (IF r.err = "pull.not-optimistic" THEN "rec.not-optimistic" ELSE r.err)
                 /\ UNCHANGED <<T, iter, ph, ends, npull, grown, soft>>
       [] e.k = "recv" ->
            LET f == CallFail(e) IN
            IF ph # "asked" THEN err' = ProtoErr /\ UNCHANGED <<T, F, iter, ph, ends, npull, grown, soft>>
            ELSE IF f # "ok" THEN err' = f /\ UNCHANGED <<T, F, iter, ph, ends, npull, grown, soft>>
            ELSE LET r == RecvStep(e) IN
                 /\ F' = r.F /\ err' = r.err /\ ph' = "told" /\ iter' = iter + 1
                 /\ soft' = AddSoft(soft, r.soft, l)
                 /\ UNCHANGED <<T, ends, npull, grown>>
       [] e.k = "end" -> /\ err' = IF ~StructOK(PP, T) THEN "final.struct" ELSE "ok"
                        /\ UNCHANGED <<T, F, iter, ph, ends, npull, grown, soft>>
       [] OTHER -> err' = "unknown-event" /\ UNCHANGED <<T, F, iter, ph, ends, npull, grown, soft>>
  /\ l' = l + 1 /\ UNCHANGED <<tid, done>>

Finish ==
  /\ ~done /\ (err # "ok" \/ l > Len(Ev))
  /\ PrintT(<<"VERDICT", Tr.id, err, l - 1, IF T.n > 0 THEN T.n ELSE 0, SoftString(soft)>>)
  /\ done' = TRUE /\ UNCHANGED <<tid, l, T, F, iter, ph, ends, npull, grown, err, soft>>

Next == Step \/ Finish
Spec == Init /\ [][Next]_vars

-----------------------------------------------------------------------------
=============================================================================
