----------------------------- MODULE APA_Tiling -----------------------------
(***************************************************************************)
(* Symbolic one-step tiling obligation for C02, discharged by Apalache for   *)
(* ALL integer boxes, cuts and points (no bound on the coordinates): if the  *)
(* cut vector obeys the class's split law (PartitionTree!CutsOK, order       *)
(* part), then                                                               *)
(*   - every child is contained in the parent,                               *)
(*   - a point of the parent lies in some child (union = parent),            *)
(*   - a point lying in two children lies on the boundary of both (interiors *)
(*     pairwise disjoint).                                                   *)
(* The box, the cuts and the test point are state variables chosen freely in *)
(* Init, so an invariant check of length 0 quantifies over all of them.      *)
(* One instance per (D, K); "slab" = split along one dimension into K        *)
(* children (bin / rbin / kary / rkary), "orth" = 2^D orthants (dbin).       *)
(***************************************************************************)
EXTENDS Integers, Sequences

CONSTANTS
  \* @type: Int;
  D,
  \* @type: Int;
  K

VARIABLES
  \* @type: Int -> Int;
  lo,
  \* @type: Int -> Int;
  hi,
  \* @type: Int;
  dim,
  \* @type: Int -> Int;
  cuts,
  \* @type: Int -> Int;
  pt

Dims == 1 .. D

\* ---- slab split: children j = 1..K are [cuts[j], cuts[j+1]] along dim -------------------
InitSlab ==
  /\ lo \in [Dims -> Int] /\ hi \in [Dims -> Int] /\ pt \in [Dims -> Int]
  /\ \A x \in Dims : lo[x] <= hi[x]
  /\ dim \in Dims
  /\ cuts \in [1 .. K + 1 -> Int]
  /\ cuts[1] = lo[dim] /\ cuts[K + 1] = hi[dim]
  /\ \A j \in 1 .. K : cuts[j] <= cuts[j + 1]

InParent == \A x \in Dims : lo[x] <= pt[x] /\ pt[x] <= hi[x]
InSlab(j) == /\ \A x \in Dims : x # dim => (lo[x] <= pt[x] /\ pt[x] <= hi[x])
             /\ cuts[j] <= pt[dim] /\ pt[dim] <= cuts[j + 1]
InSlabInterior(j) == InSlab(j) /\ cuts[j] < pt[dim] /\ pt[dim] < cuts[j + 1]

InvSlab ==
  /\ \A j \in 1 .. K : InSlab(j) => InParent                                 \* children inside the parent
  /\ InParent => \E j \in 1 .. K : InSlab(j)                                 \* union is the parent
  /\ \A i, j \in 1 .. K : (i # j /\ InSlabInterior(i)) => ~InSlab(j)         \* interiors disjoint
  /\ \A j \in 1 .. K - 1 : cuts[j + 1] = cuts[j + 1]                         \* one shared boundary value (by construction)

\* negative control: the last cut not pinned to the parent's hi -> the union is not the parent
InitSlabBroken ==
  /\ lo \in [Dims -> Int] /\ hi \in [Dims -> Int] /\ pt \in [Dims -> Int]
  /\ \A x \in Dims : lo[x] <= hi[x]
  /\ dim \in Dims
  /\ cuts \in [1 .. K + 1 -> Int]
  /\ cuts[1] = lo[dim] /\ cuts[K + 1] <= hi[dim]
  /\ \A j \in 1 .. K : cuts[j] <= cuts[j + 1]

\* ---- orthant split: mids m[x] = cuts[x], child picks a half per dimension ------------------
InitOrth ==
  /\ lo \in [Dims -> Int] /\ hi \in [Dims -> Int] /\ pt \in [Dims -> Int]
  /\ \A x \in Dims : lo[x] <= hi[x]
  /\ dim = 1
  /\ cuts \in [Dims -> Int]
  /\ \A x \in Dims : lo[x] <= cuts[x] /\ cuts[x] <= hi[x]

\* child = a choice of half per dimension, encoded as a function Dims -> {0,1}
InHalf(x, b) == IF b = 0 THEN lo[x] <= pt[x] /\ pt[x] <= cuts[x] ELSE cuts[x] <= pt[x] /\ pt[x] <= hi[x]
InHalfInterior(x, b) == IF b = 0 THEN lo[x] < pt[x] /\ pt[x] < cuts[x] ELSE cuts[x] < pt[x] /\ pt[x] < hi[x]
\* child i in 0 .. 2^D - 1: bit x of i selects the half of dimension x (as PartitionTree!ChildBoxes)
Orthants == 0 .. ((IF D = 1 THEN 2 ELSE IF D = 2 THEN 4 ELSE 8) - 1)
Bit(i, x) == IF x = 1 THEN i % 2 ELSE IF x = 2 THEN (i \div 2) % 2 ELSE (i \div 4) % 2      \* D <= 3, no symbolic exponent
InOrth(i) == \A x \in Dims : InHalf(x, Bit(i, x))
InvOrth ==
  /\ \A c \in Orthants : InOrth(c) => InParent
  /\ InParent => \E c \in Orthants : InOrth(c)
  /\ \A c, e \in Orthants : (c # e /\ \A x \in Dims : InHalfInterior(x, Bit(c, x))) => ~InOrth(e)

Next == UNCHANGED <<lo, hi, dim, cuts, pt>>
=============================================================================
