------------------------------ MODULE APA_GPO ------------------------------
(***************************************************************************)
(* The GPO / PCT / VPCT schedule of GPO.tla as a counter machine, for       *)
(* Apalache: the per-learner sequences of GPO.tla are replaced by their     *)
(* lengths, N and H (= floor(n/(2N))) are *symbolic* constants >= 1.        *)
(* IndInv is inductive (Init => IndInv at length 0, IndInv /\ Next =>       *)
(* IndInv' at length 1), which establishes for EVERY N and H what MC_GPO /  *)
(* MC_GPOS establish for the enumerated (N, half): at most N learners are   *)
(* ever created, in order; every completed phase drove its learner for      *)
(* exactly H pull/reward rounds and evaluated its last point exactly H      *)
(* times (good = phase - 1); phases end after exactly 2H rounds.            *)
(* The correspondence with GPO.tla: lp = G.lp[phase], lr = Len(G.lr[phase]),*)
(* vr = Len(G.vr[phase]), vx = Len(G.vx), made = G.made.                    *)
(***************************************************************************)
EXTENDS Integers

CONSTANTS
  \* @type: Int;
  N,
  \* @type: Int;
  H

VARIABLES
  \* @type: Int;
  phase,
  \* @type: Int;
  counter,
  \* @type: Bool;
  asked,
  \* @type: Int;
  made,
  \* @type: Int;
  lp,
  \* @type: Int;
  lr,
  \* @type: Int;
  vr,
  \* @type: Int;
  vx,
  \* @type: Int;
  good

ConstInit == N \in Int /\ H \in Int /\ N >= 1 /\ H >= 1

Init == /\ phase = 1 /\ counter = 0 /\ asked = FALSE /\ made = 0
        /\ lp = 0 /\ lr = 0 /\ vr = 0 /\ vx = 0 /\ good = 0

Finished == phase > N

Pull ==
  /\ ~asked /\ asked' = TRUE
  /\ UNCHANGED <<phase, counter, good>>
  /\ IF Finished THEN UNCHANGED <<made, lp, lr, vr, vx>>
     ELSE /\ made' = (IF counter = 0 THEN made + 1 ELSE made)
          /\ lr' = (IF counter = 0 THEN 0 ELSE lr)            \* a new learner has received nothing yet
          /\ lp' = (IF counter < H THEN (IF counter = 0 THEN 0 ELSE lp) + 1 ELSE lp)
          /\ vx' = (IF counter = H THEN vx + 1 ELSE vx)
          /\ vr' = (IF counter = H THEN 0 ELSE vr)

Receive ==
  /\ asked /\ asked' = FALSE
  /\ UNCHANGED <<made, lp, vx>>
  /\ IF Finished THEN UNCHANGED <<phase, counter, lr, vr, good>>
     ELSE LET lr1 == IF counter < H THEN lr + 1 ELSE lr
              vr1 == IF counter < H THEN vr ELSE vr + 1
          IN /\ lr' = lr1 /\ vr' = vr1
             /\ IF counter + 1 >= 2 * H
                THEN /\ phase' = phase + 1 /\ counter' = 0
                     /\ good' = (IF lp = H /\ lr1 = H /\ vr1 = H THEN good + 1 ELSE good)
                ELSE /\ counter' = counter + 1 /\ UNCHANGED <<phase, good>>

Next == Pull \/ Receive

Min(a, b) == IF a < b THEN a ELSE b
Started == ~(counter = 0 /\ ~asked)          \* the current phase has created its learner

IndInv ==
  /\ phase >= 1 /\ phase <= N + 1
  /\ counter >= 0 /\ counter < 2 * H
  /\ (Finished => counter = 0)
  /\ good = phase - 1                                   \* every completed phase: H pulls, H rewards, H validations
  /\ made = (IF Finished THEN N ELSE IF Started THEN phase ELSE phase - 1)
  /\ made <= N
  /\ vx = (IF Finished THEN N ELSE phase - 1 + (IF counter > H \/ (counter = H /\ asked) THEN 1 ELSE 0))
  /\ (~Finished /\ Started) =>
        /\ lp = Min(counter + (IF asked THEN 1 ELSE 0), H)
        /\ lr = Min(counter, H)
        /\ (counter > H \/ (counter = H /\ asked)) => vr = counter - H

IndInit ==
  /\ phase \in Int /\ counter \in Int /\ asked \in BOOLEAN /\ made \in Int
  /\ lp \in Int /\ lr \in Int /\ vr \in Int /\ vx \in Int /\ good \in Int
  /\ IndInv

\* negative control: a schedule whose phases end one round late (counter + 1 > 2H) must be refuted
ReceiveLate ==
  /\ asked /\ asked' = FALSE
  /\ UNCHANGED <<made, lp, vx>>
  /\ IF Finished THEN UNCHANGED <<phase, counter, lr, vr, good>>
     ELSE LET lr1 == IF counter < H THEN lr + 1 ELSE lr
              vr1 == IF counter < H THEN vr ELSE vr + 1
          IN /\ lr' = lr1 /\ vr' = vr1
             /\ IF counter + 1 > 2 * H
                THEN /\ phase' = phase + 1 /\ counter' = 0
                     /\ good' = (IF lp = H /\ lr1 = H /\ vr1 = H THEN good + 1 ELSE good)
                ELSE /\ counter' = counter + 1 /\ UNCHANGED <<phase, good>>
NextLate == Pull \/ ReceiveLate
=============================================================================
