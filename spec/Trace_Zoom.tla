----------------------------- MODULE Trace_Zoom -----------------------------
(* Trace validation of Zooming runs against Zooming.tla.  The recorder logs, *)
(* after every call, the arms that appeared (an: <<idx, cell, n, mean>> with *)
(* their rank-coded points in pts), changed (ac) or vanished (agone).        *)
EXTENDS Zooming, TraceTree, Json, IOUtils, TLCExt

Traces == JsonDeserialize(IOEnv.TRACE_FILE)
VARIABLES tid, l, T, cpt, arms, z, best, refined, ph, err, done
vars == <<tid, l, T, cpt, arms, z, best, refined, ph, err, done>>
Tr == Traces[tid]
PP == Tr.P
Ev == Tr.ev

Init == /\ tid \in 1 .. Len(Traces) /\ l = 1 /\ ph = "new" /\ err = "ok" /\ done = FALSE
        /\ T = [n |-> 0] /\ cpt = <<>> /\ arms = <<>> /\ z = ZInit0 /\ best = {} /\ refined = 0

CallFail(e) == IF Has(e, "hang") THEN "call.hangs" ELSE IF Has(e, "exc") THEN "call.raises"
               ELSE IF e.k \in {"pull", "glp"} /\ e.ptok # 1 THEN "call.not-a-point"
               ELSE IF ~NoStructChange(e) \/ e.pd # T.pdepth THEN "call.struct-change" ELSE "ok"

\* observed arm table after an event: new arms must get the next indices
ObsNew(e) == [j \in DOMAIN e.an |-> [pt |-> e.pts[j], cell |-> e.an[j][2], n |-> e.an[j][3], mean |-> e.an[j][4]]]
NewIdxOK(e) == \A j \in DOMAIN e.an : e.an[j][1] = Len(arms) + j
MeanOK(a, m) == AbsI(m - MeanFx(PP, a)) <= 1
Inv(TT, aa) == IF ~ArmsInside(TT, aa) THEN "zoom.arm-outside-cell" ELSE IF ~Covers(TT, aa) THEN "zoom.coverage" ELSE "ok"

InitStep(e) ==
  LET T0 == TreeOfInit(e)
      c0 == InitCheck(PP, e)
      a0 == [j \in DOMAIN e.an |-> [pt |-> e.pts[j], cell |-> e.an[j][2], n |-> 0, sum |-> 0]]
  IN [T |-> T0, arms |-> a0, cpt |-> [i \in 1 .. T0.n |-> e.cells[i].cpt],
      err |-> IF c0 # "ok" THEN c0
              ELSE IF ~(T0.n = 1 + Arity(PP)) THEN "zoom.init-shape"
              ELSE IF ~(\A j \in DOMAIN e.an : e.an[j][1] = j /\ e.an[j][3] = 0 /\ e.an[j][4] = 0 /\ e.pts[j] = e.cells[e.an[j][2]].cpt) THEN "zoom.init-arms"
              ELSE Inv(T0, a0)]

PullCheck(e) ==
  IF e.an # <<>> \/ e.ac # <<>> \/ e.agone # <<>> THEN "zoom.pull-mutates"
  ELSE IF SeqRange(e.best) \cap Playable(PP, z.phase, arms) = {} THEN "zoom.not-max-index"
  ELSE "ok"

RecvStep(e) ==
  LET ok1(a) ==   \* candidate: arm a was the one played
        LET a1  == [arms[a] EXCEPT !.n = @ + 1, !.sum = @ + e.r]
            z1  == Tick(z)
            h   == T.dep[arms[a].cell]        \* depth of the arm's cell before refinement: if refined the cell is now internal
            ver == RefineVerdict(PP, z1.phase, a1.n, h)
            base == [arms EXCEPT ![a] = a1]
            obsrow == IF \E j \in DOMAIN e.ac : e.ac[j][1] = a THEN e.ac[CHOOSE j \in DOMAIN e.ac : e.ac[j][1] = a] ELSE <<a, arms[a].cell, -1, 0>>
        IN
        IF e.agone # <<>> THEN [err |-> "zoom.arm-vanished", arms |-> arms, z |-> z1]
        ELSE IF ~(\A j \in DOMAIN e.ac : e.ac[j][1] = a) THEN [err |-> "zoom.foreign-stats", arms |-> arms, z |-> z1]
        ELSE IF ~(obsrow[3] = a1.n /\ MeanOK(a1, obsrow[4])) THEN [err |-> "zoom.stats", arms |-> arms, z |-> z1]
        ELSE IF refined = 0
             THEN IF ver = "must" THEN [err |-> "zoom.refine-missing", arms |-> arms, z |-> z1]
                  ELSE IF e.an # <<>> \/ obsrow[2] # arms[a].cell THEN [err |-> "zoom.arms-changed-without-refinement", arms |-> arms, z |-> z1]
                  ELSE [err |-> Inv(T, base), arms |-> base, z |-> z1]
             ELSE IF ver = "mustnot" THEN [err |-> "zoom.refine-unexpected", arms |-> arms, z |-> z1]
                  ELSE IF refined # arms[a].cell THEN [err |-> "zoom.refined-wrong-cell", arms |-> arms, z |-> z1]
                  ELSE IF ~NewIdxOK(e) THEN [err |-> "zoom.arm-order", arms |-> arms, z |-> z1]
                  ELSE LET obs == [base EXCEPT ![a].cell = obsrow[2]] \o [j \in DOMAIN e.an |-> [pt |-> e.pts[j], cell |-> e.an[j][2], n |-> e.an[j][3], sum |-> 0]]
                           want == AfterRefine(T, base, a, T.kids[refined], LAMBDA k : cpt[k])
                       IN IF obs \in want THEN [err |-> Inv(T, obs), arms |-> obs, z |-> z1]
                          ELSE [err |-> (LET i == Inv(T, obs) IN IF i # "ok" THEN i ELSE "zoom.hand-over"), arms |-> obs, z |-> z1]
      res == {ok1(a) : a \in best}
  IN IF \E r \in res : r.err = "ok" THEN CHOOSE r \in res : r.err = "ok" ELSE CHOOSE r \in res : TRUE

Step ==
  /\ ~done /\ err = "ok" /\ l <= Len(Ev)
  /\ LET e == Ev[l] IN
     CASE e.k = "init" ->
            LET r == InitStep(e) IN
            /\ T' = r.T /\ arms' = r.arms /\ cpt' = r.cpt /\ err' = r.err /\ ph' = "told" /\ UNCHANGED <<z, best, refined>>
       [] e.k = "mk" ->
            LET c0 == MkCheck(PP, T, e) IN
            /\ err' = IF c0 # "ok" THEN c0 ELSE IF ph # "asked" \/ refined # 0 THEN "zoom.unexpected-refinement" ELSE "ok"
            /\ T' = IF c0 = "ok" THEN MkApply(PP, T, e) ELSE T
            /\ cpt' = IF c0 = "ok" THEN cpt \o [j \in DOMAIN e.new |-> e.new[j].cpt] ELSE cpt
            /\ refined' = e.p /\ UNCHANGED <<arms, z, best, ph>>
       [] e.k = "pull" ->
            LET c0 == CallFail(e) IN
            IF ph # "told" THEN err' = "protocol" /\ UNCHANGED <<T, cpt, arms, z, best, refined, ph>>
            ELSE IF c0 # "ok" THEN err' = c0 /\ UNCHANGED <<T, cpt, arms, z, best, refined, ph>>
            ELSE /\ err' = PullCheck(e) /\ best' = SeqRange(e.best) \cap Playable(PP, z.phase, arms)
                 /\ ph' = "asked" /\ refined' = 0 /\ UNCHANGED <<T, cpt, arms, z>>
       [] e.k = "glp" ->
            LET c0 == CallFail(e) IN
            /\ err' = (IF c0 # "ok" THEN c0 ELSE PullCheck(e))
            /\ UNCHANGED <<T, cpt, arms, z, best, refined, ph>>
       [] e.k = "recv" ->
            LET c0 == CallFail(e) IN
            IF ph # "asked" THEN err' = "protocol" /\ UNCHANGED <<T, cpt, arms, z, best, refined, ph>>
            ELSE IF c0 # "ok" THEN err' = c0 /\ UNCHANGED <<T, cpt, arms, z, best, refined, ph>>
            ELSE LET r == RecvStep(e) IN
                 /\ arms' = r.arms /\ z' = r.z /\ err' = r.err /\ ph' = "told" /\ UNCHANGED <<T, cpt, best, refined>>
       [] e.k = "end" -> /\ err' = (IF ~StructOK(PP, T) THEN "final.struct" ELSE "ok")
                        /\ UNCHANGED <<T, cpt, arms, z, best, refined, ph>>
       [] OTHER -> err' = "unknown-event" /\ UNCHANGED <<T, cpt, arms, z, best, refined, ph>>
  /\ l' = l + 1 /\ UNCHANGED <<tid, done>>

Finish ==
  /\ ~done /\ (err # "ok" \/ l > Len(Ev))
  /\ PrintT(<<"VERDICT", Tr.id, err, l - 1, IF T.n > 0 THEN T.n ELSE 0>>)
  /\ done' = TRUE /\ UNCHANGED <<tid, l, T, cpt, arms, z, best, refined, ph, err>>
Next == Step \/ Finish
Spec == Init /\ [][Next]_vars
=============================================================================
