-------------------------------- MODULE POO --------------------------------
(***************************************************************************)
(* POO (docs/.../POO/POO.png), structured like PyXAB/algos/POO.py:          *)
(* a doubling schedule that creates base learners while                    *)
(*        N <= 0.5 Dmax ln(n / ln n)            ("creation branch")         *)
(* and otherwise serves the existing learners round-robin.  The branch     *)
(* condition is the only real-valued ingredient; it enters as an oracle    *)
(* Cr(N, n).  On the schedule n is always a multiple of N = 2^k and, for   *)
(* fixed N, ln(n/ln n) is non-decreasing over even n, so the oracle is a   *)
(* threshold table: Cr(N, n) <=> n >= thr[k].  The exhaustive model lets   *)
(* every threshold be arbitrary, which over-approximates every rho_max.    *)
(*                                                                         *)
(* Base learners are abstract; the state keeps, per learner, the true      *)
(* sequence of rewards delivered to it, so "score = arithmetic mean of the *)
(* rewards received, count = their number" (C10) can be stated.            *)
(***************************************************************************)
EXTENDS Naturals, Integers, Sequences, FiniteSets, SequencesExt, TLC

Log2(N) == CHOOSE k \in 0 .. 30 : 2 ^ k = N
Cr(thr, N, n) == n >= thr[Log2(N)]

PInit == [N |-> 2, n |-> 2, phase |-> 1, counter |-> 0, cursor |-> 0,
          grid |-> <<>>,     \* grid[i] = <<N, phase>> at creation: rho_i = rho_max^(2N/(2 phase+1))
          lp |-> <<>>,       \* pulls served by learner i
          lr |-> <<>>,       \* rewards delivered to learner i, in order
          asked |-> 0]       \* learner that served the last pull

Sum(s) == FoldLeft(LAMBDA a, b : a + b, 0, s)
RatGeq(x, y) == x[1] * y[2] >= y[1] * x[2]
\* score of a learner with no reward yet is 0 (as initialised)
Score(G, i) == IF G.lr[i] = <<>> THEN <<0, 1>> ELSE <<Sum(G.lr[i]), Len(G.lr[i])>>
Best(G) == {i \in DOMAIN G.lr : \A j \in DOMAIN G.lr : RatGeq(Score(G, i), Score(G, j))}

\* the start condition the property takes as given (rho_max >= ~0.84): first branch is creation
Starts(thr) == Cr(thr, 2, 2)

Pull(thr, G) ==
  IF Cr(thr, G.N, G.n)
  THEN LET G1 == IF G.counter = 0
                 THEN [G EXCEPT !.grid = Append(@, <<G.N, G.phase>>), !.lp = Append(@, 0), !.lr = Append(@, <<>>)]
                 ELSE G
           i  == Len(G1.lp)
       IN [G |-> [G1 EXCEPT !.lp[i] = @ + 1, !.asked = i],
           sub |-> (IF G.counter = 0 THEN << <<"new", i>> >> ELSE <<>>) \o << <<"pull", i>> >>,
           who |-> i]
  ELSE LET i == G.cursor + 1 IN
       [G |-> [G EXCEPT !.lp[i] = @ + 1, !.asked = i], sub |-> << <<"pull", i>> >>, who |-> i]

Receive(thr, G, r) ==
  IF Cr(thr, G.N, G.n)
  THEN LET i  == Len(G.lp)
           G1 == [G EXCEPT !.lr[i] = Append(@, r)]
           c  == G.counter + 1
           G2 == IF c >= G.n \div G.N THEN [G1 EXCEPT !.counter = 0, !.phase = @ + 1] ELSE [G1 EXCEPT !.counter = c]
           G3 == IF G2.phase >= G2.N
                 THEN [G2 EXCEPT !.n = 2 * @, !.N = 2 * @, !.phase = 0, !.counter = 0, !.cursor = 0] ELSE G2
       IN [G |-> G3, sub |-> << <<"recv", i, r>> >>, who |-> i]
  ELSE LET i  == G.cursor + 1
           G1 == [G EXCEPT !.lr[i] = Append(@, r)]
           G2 == IF i = Len(G.lp) THEN [G1 EXCEPT !.cursor = 0, !.n = @ + G.N] ELSE [G1 EXCEPT !.cursor = i]
       IN [G |-> G2, sub |-> << <<"recv", i, r>> >>, who |-> i]

\* get_last_point = next proposal of a best-scoring learner (a pull of that learner that is not a round)
GLPWho(G) == Best(G)

(***************************************************************************)
(* C10 invariants                                                          *)
(***************************************************************************)
\* n is a multiple of N; the schedule invariant that makes the coded running mean a true mean:
\* in the round-robin branch every learner has n/N rewards, those before the cursor one more
ScheduleOK(thr, G) ==
  /\ G.n % G.N = 0
  /\ Len(G.lp) = Len(G.lr) /\ Len(G.lp) = Len(G.grid)
  /\ ~Cr(thr, G.N, G.n) =>
        \A i \in DOMAIN G.lr : Len(G.lr[i]) = (G.n \div G.N) + (IF i <= G.cursor THEN 1 ELSE 0)
GridDistinct(G) ==
  \A i, j \in DOMAIN G.grid : i # j =>
     \* 2N/(2p+1) = 2N'/(2p'+1)  <=>  N(2p'+1) = N'(2p+1)
     G.grid[i][1] * (2 * G.grid[j][2] + 1) # G.grid[j][1] * (2 * G.grid[i][2] + 1)
GridBelowRhomax(G) == \A i \in DOMAIN G.grid : 2 * G.grid[i][1] > 2 * G.grid[i][2] + 1    \* exponent > 1
RoutingOK(G) == \A i \in DOMAIN G.lp : Len(G.lr[i]) <= G.lp[i] /\ G.lp[i] <= Len(G.lr[i]) + 1
=============================================================================
