----------------------------- MODULE Trace_SOO -----------------------------
(***************************************************************************)
(* Trace validation of SOO / StoSOO / DOO runs against SOOFamily.tla.       *)
(* A pull appears as its make_children events (each carrying the evidence   *)
(* changes observed so far) followed by the pull event; the cursor          *)
(* <<h, vmax>> of the sweep is part of the specification state.            *)
(***************************************************************************)
EXTENDS SOOFamily, TraceTree, Json, IOUtils, TLCExt

Traces == JsonDeserialize(IOEnv.TRACE_FILE)
VARIABLES tid, l, T, f, hc, hw, tv, cur, nexp, ph, asked, err, soft, done
vars == <<tid, l, T, f, hc, hw, tv, cur, nexp, ph, asked, err, soft, done>>
Tr == Traces[tid]
PP == Tr.P
Ev == Tr.ev
Tol == PP.tol

ApplyFc(ff, fc) == FoldLeft(LAMBDA acc, x : IF x[1] \in DOMAIN acc THEN [acc EXCEPT ![x[1]] = SubSeq(x, 2, 6)] ELSE acc, ff, fc)
ChangedCells(ff, g) == {c \in DOMAIN ff : ff[c] # g[c]}
ColsSame(a, b, cols) == \A j \in cols : a[j] = b[j]

FreshCell(x) ==
  CASE PP.algo = "SOO"    -> x[2] = 0 /\ x[3] = NInf
    [] PP.algo = "DOO"    -> x[2] = 0 /\ x[3] = PP.r0
    [] PP.algo = "StoSOO" -> x[2] = 0 /\ x[3] = 0 /\ x[4] = 0 /\ x[5] = 0

Init == /\ tid \in 1 .. Len(Traces) /\ l = 1 /\ ph = "new" /\ err = "ok" /\ soft = "ok" /\ done = FALSE
        /\ T = [n |-> 0] /\ f = <<>> /\ hc = <<>> /\ hw = <<>> /\ tv = <<>> /\ cur = <<0, NInf>> /\ nexp = 0 /\ asked = {}

CallFail(e) == IF Has(e, "hang") THEN "call.hangs" ELSE IF Has(e, "exc") THEN "call.raises"
               ELSE IF e.k \in {"pull", "glp"} /\ e.ptok # 1 THEN "call.not-a-point"
               ELSE IF ~NoStructChange(e) \/ e.pd # T.pdepth THEN "call.struct-change" ELSE "ok"

\* evidence changes a pull may make before the cell is handed out: b-values only
PullChangeOK(f0, f1) ==
  \A c \in DOMAIN f0 : f0[c] = f1[c] \/ (PP.algo \in {"StoSOO", "DOO"} /\ ColsSame(f0[c], f1[c], {1, 2, 3, 4}))
BFormulaOK(f0, f1) ==
  CASE PP.algo = "StoSOO" -> \A c \in ChangedCells(f0, f1) : Close(Bv(f1, c), BStoSOO(PP, f1, c), Tol)
    [] PP.algo = "DOO" ->
         \* b - reward is one function of the depth (and the user's delta table when there is one)
         LET dl(c) == Bv(f1, c) - V(f1, c) * (PP.S \div PP.RU)
             chall == ChangedCells(f0, f1)
             ch == {c \in chall : AbsI(Bv(f1, c)) < 1800000000}      \* codes at the clamp carry no information (huge boxes)
             \* rewards handed in as 32-bit floats make b a 32-bit float: 24 significant bits
             slack(m) == IF "f32" \in DOMAIN PP /\ PP.f32 = 1 THEN AbsI(m) \div 2097152 ELSE 0
         IN
         /\ \A c \in chall : N(f1, c) = 1
         /\ \A c, d \in ch : T.dep[c] = T.dep[d] => AbsI(dl(c) - dl(d)) <= 2 * slack(dl(c))
         /\ PP.dl # <<>> => \A c \in ch : AbsI(dl(c) - PP.dl[T.dep[c] + 1]) <= 1
         \* default delta(h): the largest squared half-width (first coordinate) over the cells currently at depth h
         /\ PP.dl = <<>> => \A c \in ch : LET m == FoldLeft(LAMBDA a, d : MaxI(a, hw[d]), 0, T.layers[T.dep[c] + 1]) IN
                                          m >= 1800000000 \/ AbsI(dl(c) - m) <= 1 + slack(m)
    [] OTHER -> TRUE

MkStep(e) ==
  LET c0 == MkCheckEv(PP, T, e, LAMBDA d : N(f, d) > 0)
      f1 == ApplyFc(f, e.fc)
      p  == e.p
      nf == [j \in DOMAIN e.nf |-> SubSeq(e.nf[j], 2, 6)]
      ok(TT, ff, cc, ne) == [T |-> TT, f |-> ff, cur |-> cc, nexp |-> ne, err |-> "ok"]
      bad(x) == [T |-> T, f |-> f, cur |-> cur, nexp |-> nexp, err |-> x]
  IN
  IF c0 # "ok" THEN bad(c0)
  ELSE IF ph # "told" THEN bad("sweep.expansion-outside-pull")
  ELSE IF ~PullChangeOK(f, f1) THEN bad("stats.pull-mutates")
  ELSE IF ~BFormulaOK(f, f1) THEN bad("sweep.b-formula")
  ELSE IF ~(Len(e.nf) = Arity(PP) /\ \A j \in DOMAIN e.nf : FreshCell(e.nf[j])) THEN bad("sweep.new-cell-not-fresh")
  ELSE IF PP.algo = "DOO"
  THEN IF nexp >= 1 THEN bad("sweep.second-expansion")                                   \* one expansion per pull
       ELSE IF DooUnevaluated(T, f1) # {} THEN bad("sweep.expanded-before-evaluating")      \* an unevaluated leaf precedes
       ELSE IF N(f1, p) # 1 THEN bad("sweep.expanded-unevaluated")
       ELSE IF ~(p \in DooBest(T, f1)) THEN bad("sweep.not-best")
       ELSE ok(MkApply(PP, T, e), f1 \o nf, cur, nexp + 1)
  ELSE LET pt == Point(PP, T, f1, cur[1], cur[2], Fuel(T)) IN
       IF pt.kind # "act" THEN bad("sweep." \o pt.kind)
       ELSE IF pt.exp = {} THEN bad("sweep.expanded-before-evaluating")                     \* the sweep had to hand out a cell here
       ELSE IF ~(p \in pt.exp) THEN
              (IF T.dep[p] # pt.h THEN bad("sweep.wrong-depth")
               ELSE IF N(f1, p) < (IF PP.algo = "SOO" THEN 1 ELSE PP.k) THEN bad("sweep.expanded-unevaluated")
               ELSE bad("sweep.not-best-of-depth"))
       ELSE ok(MkApply(PP, T, e), f1 \o nf, <<pt.h + 1, pt.val>>, nexp + 1)

PullStep(e) ==
  LET f1   == ApplyFc(f, e.fc)
      cs   == SeqRange(e.cands)
      fdec == IF PP.algo = "StoSOO" THEN f1 ELSE f     \* SOO/DOO mark the cell evaluated inside the pull
      bad(x) == [f |-> f1, asked |-> {}, err |-> x]
  IN
  IF PP.algo = "DOO"
  THEN LET un == DooUnevaluated(T, f) \cap cs
           f1b == [c \in DOMAIN f1 |-> IF c \in un THEN [f1[c] EXCEPT ![1] = 0] ELSE f1[c]] IN
       IF un = {} THEN bad(IF DooUnevaluated(T, f) = {} THEN "sweep.missing-expansion" ELSE "sweep.handed-out-wrong-cell")
       ELSE IF ~(\E c \in un : N(f1, c) = 1 /\ PullChangeOK(f, [f1 EXCEPT ![c][1] = 0])) THEN bad("stats.pull-mutates")
       ELSE IF ~BFormulaOK(f, [c \in DOMAIN f1 |-> IF c \in un THEN f[c] ELSE f1[c]]) THEN bad("sweep.b-formula")
       ELSE [f |-> f1, asked |-> {c \in un : N(f1, c) = 1}, err |-> "ok"]
  ELSE LET pt == Point(PP, T, fdec, cur[1], cur[2], Fuel(T)) IN
       IF pt.kind # "act" THEN bad("sweep." \o pt.kind)
       ELSE IF pt.ret \cap cs = {} THEN bad(IF pt.ret = {} THEN "sweep.missing-expansion" ELSE "sweep.handed-out-wrong-cell")
       ELSE IF PP.algo = "SOO"
            THEN IF ~(\E c \in pt.ret \cap cs : f1 = [f EXCEPT ![c][1] = 1]) THEN bad("stats.pull-mutates")
                 ELSE [f |-> f1, asked |-> {c \in pt.ret \cap cs : N(f1, c) = 1}, err |-> "ok"]
            \* StoSOO: a pull may only refresh b-values; a change of the evidence proper (C04) is soft -- the walk goes on
            \* on the observed values so that the recommendations that follow are still judged (C07)
            ELSE IF ~BFormulaOK(f, f1) THEN bad("sweep.b-formula")
                 ELSE [f |-> f1, asked |-> pt.ret \cap cs, err |-> "ok", soft |-> IF ~PullChangeOK(f, f1) THEN "stats.pull-mutates" ELSE "ok"]

RecvStep(e) ==
  LET f1 == ApplyFc(f, e.fc)
      ch == ChangedCells(f, f1)
      r  == e.r
  IN [f |-> f1,
      err |-> IF ~(\E c \in asked : ch \subseteq {c}) THEN "credit.wrong-cell"       \* C04: only the cell handed out
              ELSE IF PP.algo \in {"SOO", "DOO"}
                   THEN IF ~(\E c \in asked : V(f1, c) = r /\ N(f1, c) = 1 /\ (ch = {c} \/ f[c][2] = r)) THEN "credit.reward" ELSE "ok"
                   ELSE IF ~(\E c \in asked : /\ N(f1, c) = N(f, c) + 1 /\ V(f1, c) = V(f, c) + r /\ f1[c][3] = N(f1, c)
                                              /\ AbsI(f1[c][4] - RoundDiv(V(f1, c) * PP.S, N(f1, c) * PP.RU)) <= 1
                                              /\ N(f1, c) <= PP.k) THEN "credit.stats" ELSE "ok"]

\* C07: the recommendation
\* tv: the history itself -- SOO / DOO: the reward of the round in which the cell was handed out (NInf: never);
\* StoSOO: <<sum, number>> of the rewards of the rounds in which the cell was handed out
TvFresh == IF PP.algo = "StoSOO" THEN <<0, 0>> ELSE NInf
HistMeanGeq(c, d) ==
  LET nc == IF tv[c][2] = 0 THEN 1 ELSE tv[c][2]   nd == IF tv[d][2] = 0 THEN 1 ELSE tv[d][2] IN tv[c][1] * nd >= tv[d][1] * nc
HistStoBest == LET L == SeqRange(T.layers[T.pdepth + 1]) IN {c \in L : c \in DOMAIN tv /\ \A d \in L : d \in DOMAIN tv => HistMeanGeq(c, d)}
HistEvaluated == {c \in DOMAIN tv : tv[c] # NInf}
HistBest == {c \in HistEvaluated : \A d \in HistEvaluated : tv[d] <= tv[c]}
GlpStep(e) ==
  LET cs == SeqRange(e.cands) IN
  IF e.fc # <<>> THEN "rec.mutates"
  ELSE IF PP.algo = "StoSOO" THEN (IF cs \cap RecStoSOO(T, f) = {} THEN "rec.not-best-mean-of-deepest-level"
                                    \* the mean of the rewards the cell really received, should the recorded one have drifted from it (soft C04 clause)
                                    ELSE IF cs \cap HistStoBest = {} THEN "rec.not-best-mean-of-history" ELSE "ok")
  ELSE IF Evaluated(T, f) = {} THEN "ok"
  ELSE IF cs \cap Evaluated(T, f) = {} THEN "rec.never-evaluated"
  ELSE IF cs \cap RecBestEvaluated(T, f) = {} THEN "rec.not-best"
  \* ... and by the history itself (SOO, DOO: one reward per cell), should the recorded evidence have been adopted after a soft C04 clause
  ELSE IF HistEvaluated # {} /\ cs \cap HistBest = {} THEN "rec.not-best-of-history" ELSE "ok"

Cap == IF PP.algo = "StoSOO" THEN PP.k ELSE 1
\* how often each cell has been handed out (C08: at most once / at most k times), independent of what was credited
HandOut(r) == IF r.err = "ok" /\ r.asked # {} THEN [hc EXCEPT ![CHOOSE c \in r.asked : TRUE] = @ + 1] ELSE hc
TooOften(r) == r.err = "ok" /\ r.asked # {} /\ hc[CHOOSE c \in r.asked : TRUE] >= Cap

Step ==
  /\ ~done /\ err = "ok" /\ l <= Len(Ev)
  /\ LET e == Ev[l] IN
     CASE e.k = "init" ->
            LET c0 == InitCheck(PP, e) IN
            /\ T' = TreeOfInit(e) /\ f' = e.f /\ ph' = "told"
            /\ hc' = [c \in DOMAIN e.f |-> 0] /\ hw' = [c \in DOMAIN e.cells |-> e.cells[c].hw2]
            /\ err' = IF c0 # "ok" THEN c0
                      ELSE IF ~(Len(e.cells) = 1 /\ FreshCell(<<1>> \o e.f[1])) THEN "sweep.init" ELSE "ok"
            /\ tv' = [c \in DOMAIN e.f |-> TvFresh]
            /\ UNCHANGED <<cur, nexp, asked>>
       [] e.k = "mk" ->
            LET r == MkStep(e) IN
            /\ T' = r.T /\ f' = r.f /\ cur' = r.cur /\ nexp' = r.nexp /\ err' = r.err /\ UNCHANGED <<ph, asked>>
            /\ hc' = (IF r.err = "ok" THEN hc \o [j \in DOMAIN e.new |-> 0] ELSE hc)
            /\ hw' = (IF r.err = "ok" THEN hw \o [j \in DOMAIN e.new |-> e.new[j].hw2] ELSE hw)
            /\ tv' = (IF r.err = "ok" THEN tv \o [j \in DOMAIN e.new |-> TvFresh] ELSE tv)
       [] e.k = "pull" ->
            LET c0 == CallFail(e) IN
            IF ph # "told" THEN err' = "protocol" /\ UNCHANGED <<T, f, hc, hw, tv, cur, nexp, ph, asked>>
            ELSE IF c0 # "ok" THEN err' = c0 /\ UNCHANGED <<T, f, hc, hw, tv, cur, nexp, ph, asked>>
            ELSE LET r == PullStep(e) IN
                 /\ f' = r.f /\ asked' = r.asked /\ ph' = "asked" /\ cur' = <<0, NInf>> /\ nexp' = 0 /\ UNCHANGED <<T, hw, tv>>
                 /\ soft' = (IF soft = "ok" /\ Has(r, "soft") THEN r.soft ELSE soft)
                 /\ err' = (IF TooOften(r) THEN "sweep.evaluated-too-often" ELSE r.err)
                 /\ hc' = HandOut(r)
       [] e.k = "recv" ->
            LET c0 == CallFail(e) IN
            IF ph # "asked" THEN err' = "protocol" /\ UNCHANGED <<T, f, hc, hw, tv, cur, nexp, ph, asked>>
            ELSE IF c0 # "ok" THEN err' = c0 /\ UNCHANGED <<T, f, hc, hw, tv, cur, nexp, ph, asked>>
            ELSE LET r == RecvStep(e) IN
                 /\ f' = r.f /\ err' = "ok" /\ soft' = (IF soft = "ok" THEN r.err ELSE soft) /\ ph' = "told" /\ UNCHANGED <<T, hc, hw, cur, nexp, asked>>
                 \* the history itself: the reward belongs to the cell the preceding pull handed out, whatever was recorded
                 /\ tv' = (IF asked # {} /\ (CHOOSE c \in asked : TRUE) \in DOMAIN tv THEN [tv EXCEPT ![CHOOSE c \in asked : TRUE] = IF PP.algo = "StoSOO" THEN <<@[1] + e.r, @[2] + 1>> ELSE e.r] ELSE tv)
       [] e.k = "glp" ->
            LET c0 == CallFail(e) IN
            /\ err' = IF c0 # "ok" THEN c0 ELSE GlpStep(e)
            /\ UNCHANGED <<T, f, hc, hw, tv, cur, nexp, ph, asked>>
       [] e.k = "end" -> /\ err' = IF ~StructOK(PP, T) THEN "final.struct" ELSE "ok"
                        /\ UNCHANGED <<T, f, hc, hw, tv, cur, nexp, ph, asked>>
       [] OTHER -> err' = "unknown-event" /\ UNCHANGED <<T, f, hc, hw, tv, cur, nexp, ph, asked>>
  /\ l' = l + 1 /\ UNCHANGED <<tid, done>>
  /\ (Ev[l].k = "recv" /\ ph = "asked" /\ CallFail(Ev[l]) = "ok") \/ (Ev[l].k = "pull" /\ ph = "told" /\ CallFail(Ev[l]) = "ok") \/ UNCHANGED soft

Finish ==
  /\ ~done /\ (err # "ok" \/ l > Len(Ev))
  /\ PrintT(<<"VERDICT", Tr.id, IF err # "ok" THEN err ELSE soft, l - 1, IF T.n > 0 THEN T.n ELSE 0, IF err # "ok" THEN soft ELSE "ok">>)
  /\ done' = TRUE /\ UNCHANGED <<tid, l, T, f, hc, hw, tv, cur, nexp, ph, asked, err, soft>>

Next == Step \/ Finish
Spec == Init /\ [][Next]_vars
=============================================================================
