------------------------------ MODULE Zooming ------------------------------
(***************************************************************************)
(* Zooming (PyXAB/algos/Zooming.py, docs/.../Zooming/Zooming.png).          *)
(*                                                                         *)
(* Active arms: sequence of records [pt, cell, n, sum] (insertion order).   *)
(* Every leaf of the partition is the cell of exactly one active arm, and   *)
(* the arm's point lies in that cell (C11).  A pull plays an arm of maximal *)
(* index mean + 2 sqrt(8 phase/(2+n)); after the reward the arm's cell is   *)
(* refined iff sqrt(8 phase/(2+n)) <= nu rho^depth; the arm is handed to    *)
(* exactly one child that contains it and every other child gets a new arm  *)
(* at its centre.                                                          *)
(* Coordinates are integers (lattice points or ranks of the floats).       *)
(* P: S, RU, nurho[h+1] = round(S nu rho^h), band (tolerance units)         *)
(***************************************************************************)
EXTENDS PartitionTree, FP

ZInit0 == [phase |-> 1, nextEnd |-> 2, time |-> 0]

MeanFx(P, a) == IF a.n = 0 THEN 0 ELSE RoundDiv(a.sum * P.S, a.n * P.RU)
\* S * sqrt(8 phase/(2+n))
Radius(P, phase, n) == ISqrt((8 * phase * P.S * P.S) \div (2 + n))
Index(P, phase, a) == MeanFx(P, a) + 2 * Radius(P, phase, a.n)

\* arms that may be played: maximal index, up to the fixed-point band
Playable(P, phase, arms) ==
  LET idx == [i \in DOMAIN arms |-> Index(P, phase, arms[i])]
      m   == FoldLeft(LAMBDA x, i : MaxI(x, idx[i]), NInf, [i \in DOMAIN arms |-> i])
  IN {i \in DOMAIN arms : idx[i] >= m - P.band}

\* phase bookkeeping after a reward
Tick(z) ==
  LET t == z.time + 1 IN
  IF t >= z.nextEnd THEN [phase |-> z.phase + 1, nextEnd |-> z.nextEnd + 2 ^ (z.phase + 1), time |-> t]
  ELSE [z EXCEPT !.time = t]

\* refinement test for an arm with n pulls in phase ph on a cell of depth h:
\* "must", "mustnot" or "either" (inside the fixed-point band)
RefineVerdict(P, ph, n, h) ==
  LET r == Radius(P, ph, n)  b == P.nurho[h + 1] IN
  IF r <= b - P.band THEN "must" ELSE IF r > b + P.band THEN "mustnot" ELSE "either"

CellHas(T, c, pt) == PointInside(pt, T.box[c])

\* C11 invariants
ArmsInside(T, arms) == \A i \in DOMAIN arms : arms[i].cell \in Cells(T) /\ CellHas(T, arms[i].cell, arms[i].pt)
Covers(T, arms) ==
  /\ {arms[i].cell : i \in DOMAIN arms} = Leaves(T)                          \* every leaf has its arm: the domain stays covered
  /\ \A i, j \in DOMAIN arms : i # j => arms[i].cell # arms[j].cell

\* the arm configuration after refining arm a's cell p into kids (ids), given the centres of the kids:
\* a moves to one kid containing it, every other kid gets a fresh arm at its centre, in child order
AfterRefine(T, arms, a, kids, centre(_)) ==
  {res \in UNION {
       {[arms EXCEPT ![a].cell = k] \o
           SelectSeq([j \in DOMAIN kids |-> [pt |-> centre(kids[j]), cell |-> kids[j], n |-> 0, sum |-> 0]], LAMBDA x : x.cell # k)}
       : k \in {k \in SeqRange(kids) : CellHas(T, k, arms[a].pt)}} : TRUE}
=============================================================================
