----------------------------- MODULE TraceTree -----------------------------
(***************************************************************************)
(* Binding of PartitionTree to observations of the implementation.         *)
(* An observation is an event record produced by harness/recorder.py: the  *)
(* differences between two walks over the whole object graph.  The          *)
(* operators below say which observations are explained by the             *)
(* specification's MkB step and return the name of the first clause that    *)
(* is not ("ok" otherwise), so that verdicts are total.                    *)
(***************************************************************************)
EXTENDS PartitionTree

Has(e, f) == f \in DOMAIN e
Half == 524288      \* 2^19
One  == 1048576     \* 2^20

TreeOfInit(e) ==
  LET n == Len(e.cells) IN
  [n |-> n,
   parent |-> [i \in 1 .. n |-> e.cells[i].par],
   kids   |-> e.kids,
   dep    |-> [i \in 1 .. n |-> e.cells[i].dep],
   idx    |-> [i \in 1 .. n |-> e.cells[i].idx],
   layers |-> e.layers,
   pdepth |-> e.pd,
   box    |-> [i \in 1 .. n |-> e.cells[i].box]]

\* the representative point of a cell is its centre (C02): order part on ranks; metric part on
\* cdev = |cpt - (lo+hi)/2| measured exactly by the recorder in half-ulps of the larger bound, so
\* cdev <= 1 says "cpt is the midpoint up to the rounding of one float addition" (0 on lattices)
CentreOK(c) ==
  \A x \in DOMAIN c.box :
     /\ c.box[x][1] <= c.cpt[x] /\ c.cpt[x] <= c.box[x][2] /\ c.box[x][1] >= 1
     /\ c.cdev[x] <= 1

\* equal-size kinds: wdev = |width - parent's width / arity| in ulps of the parent's larger bound
\* (midpoint split: one rounding; linspace: a few roundings)
WidthsOK(P, pb, c) ==
  CASE P.kind = "dbin" -> \A x \in DOMAIN pb : c.wdev[x] <= 1
    [] P.kind \in {"bin", "kary"} ->
         \A x \in DOMAIN pb : c.box[x] = pb[x] \/ c.wdev[x] <= (IF P.kind = "bin" THEN 1 ELSE 6)
    [] OTHER -> TRUE

InitCheck(P, e) ==
  LET T == TreeOfInit(e) IN
  IF e.anom # <<>> THEN "init.anomaly"
  ELSE IF ~(\A i \in 1 .. T.n : e.cells[i].id = i) THEN "init.ids"
  ELSE IF ~(\A i \in 1 .. T.n : \A j \in DOMAIN T.kids[i] : T.kids[i][j] > i) THEN "init.order"
  ELSE IF ~StructOK(P, T) THEN "init.struct"
  ELSE IF ~EveryParentTiled(P, T) THEN "init.tiling"
  ELSE IF ~(\A i \in 1 .. T.n : CentreOK(e.cells[i])) THEN "init.centre"
  ELSE IF ~(\A i \in 2 .. T.n : WidthsOK(P, T.box[T.parent[i]], e.cells[i])) THEN "init.widths"
  ELSE "ok"

\* the observed child boxes are ChildBoxes of a cut vector the class may draw
CutsOf(P, kb, dim) ==
  IF P.kind = "dbin" THEN [x \in 1 .. P.D |-> kb[1][x][2]]
  ELSE [j \in 1 .. Arity(P) + 1 |-> IF j = 1 THEN kb[1][dim][1] ELSE kb[j - 1][dim][2]]
CutsExplain(P, pb, kb) ==
  \E dim \in 1 .. P.D :
     LET cuts == CutsOf(P, kb, dim) IN CutsOK(P, pb, dim, cuts) /\ kb = ChildBoxes(P, pb, dim, cuts)

\* Is the observed make_children event e explained by MkB on tree T ?
MkCheck(P, T, e) ==
  LET K   == Arity(P)
      p   == e.p
      ids == NewIds(P, T)
  IN
  IF Has(e, "hang") THEN "mk.hangs"                                  \* C01: the call did not return (watchdog), the split is incomplete
  ELSE IF Has(e, "exc") THEN "mk.raises"
  ELSE IF ~(p \in Cells(T)) THEN "mk.unknown-parent"
  ELSE IF ~IsLeaf(T, p) THEN "mk.guard-leaf"                       \* C03/C06: only leaves are split
  ELSE IF e.anom # <<>> THEN "mk.anomaly"
  ELSE IF Len(e.new) # K THEN "mk.arity"                           \* C02
  ELSE IF ~(\A j \in 1 .. K : e.new[j].id = ids[j] /\ e.new[j].par = p) THEN "mk.ids"
  ELSE IF ~(\A j \in 1 .. K : e.new[j].dep = T.dep[p] + 1 /\ e.new[j].idx = Append(T.idx[p], j - 1)) THEN "mk.labels"   \* C03
  ELSE IF e.kc # << <<p, ids>> >> THEN "mk.kids-foreign-change"      \* C03: exactly p's child list changes
  ELSE IF e.pd # (IF NewLayerFlag(T, p) THEN T.pdepth + 1 ELSE T.pdepth) THEN "mk.depth"
  ELSE IF e.lc # (IF NewLayerFlag(T, p) THEN << <<T.pdepth + 1, 0, ids>> >>
                  ELSE << <<T.dep[p] + 1, Len(T.layers[T.dep[p] + 2]), ids>> >>) THEN "mk.layers"   \* C03
  ELSE IF ~Tiling(P, T.box[p], [j \in 1 .. K |-> e.new[j].box]) THEN "mk.tiling"      \* C02
  ELSE IF ~(\A j \in 1 .. K : CentreOK(e.new[j])) THEN "mk.centre"                      \* C02
  ELSE IF ~(\A j \in 1 .. K : WidthsOK(P, T.box[p], e.new[j])) THEN "mk.widths"         \* C02
  ELSE IF ~CutsExplain(P, T.box[p], [j \in 1 .. K |-> e.new[j].box]) THEN "mk.cuts"     \* C02: the class's split law
  ELSE IF Has(e, "want") /\ (e.wantp # p \/ [j \in 1 .. K |-> e.new[j].box] # ChildBoxes(P, T.box[p], e.want[1], e.want[2]))
       THEN "mk.replay-mismatch"                                   \* spec -> code: the behaviour TLC produced
  ELSE "ok"

\* splitting a cell that already has children replaces its child list: the evidence held below it is no longer
\* reachable from the root (C04 as well as C03/C06)
MkCheckEv(P, T, e, holds(_)) ==
  LET c0 == MkCheck(P, T, e) IN
  IF c0 = "mk.guard-leaf" /\ (\E d \in ReachFrom(T, SeqRange(T.kids[e.p])) : holds(d)) THEN "mk.guard-leaf.evidence-discarded" ELSE c0

MkApply(P, T, e) == MkB(P, T, e.p, [j \in 1 .. Arity(P) |-> e.new[j].box])

\* a public call must leave the structure alone except through make_children events
NoStructChange(e) == e.new = <<>> /\ e.kc = <<>> /\ e.lc = <<>> /\ e.anom = <<>>
=============================================================================
