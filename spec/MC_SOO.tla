------------------------------- MODULE MC_SOO -------------------------------
(***************************************************************************)
(* Exhaustive model of SOO / StoSOO / DOO for one parameter record (JSON    *)
(* file named by MC_PARAMS): every reward sequence over P.rewards up to P.R *)
(* rounds, every admissible choice of the sweep.  One action per micro-step *)
(* of a pull (begin, expand, hand out) and one for receive_reward.          *)
(***************************************************************************)
EXTENDS SOOFamily, Json, IOUtils

P == JsonDeserialize(IOEnv.MC_PARAMS)
K == Arity(P)
VARIABLES T, f, mode, cur, nexp, askedc, hist
vars == <<T, f, mode, cur, nexp, askedc, hist>>

NoBox == <<>>
R0 == IF P.algo = "SOO" THEN NInf ELSE IF P.algo = "DOO" THEN P.r0 ELSE 0
FreshF == <<0, R0, 0, 0, PInf>>
Init == /\ T = RootTree(NoBox) /\ f = <<FreshF>> /\ mode = "idle" /\ cur = <<0, NInf>> /\ nexp = 0 /\ askedc = 0 /\ hist = <<>>

BNow(ff, TT, c) ==
  CASE P.algo = "StoSOO" -> BStoSOO(P, ff, c)
    [] P.algo = "DOO" -> IF N(ff, c) = 1 THEN V(ff, c) * (P.S \div P.RU) + P.dl[TT.dep[c] + 1] ELSE PInf
    [] OTHER -> 0

PullBegin == /\ mode = "idle" /\ Len(SelectSeq(hist, LAMBDA x : x[1] = "r")) < P.R
             /\ mode' = "sweep" /\ cur' = <<0, NInf>> /\ nexp' = 0 /\ UNCHANGED <<T, f, askedc, hist>>

Pt == Point(P, T, f, cur[1], cur[2], Fuel(T))
ExpSet == IF P.algo = "DOO" THEN (IF DooUnevaluated(T, f) = {} /\ nexp = 0 THEN DooBest(T, f) ELSE {})
          ELSE IF Pt.kind = "act" THEN Pt.exp ELSE {}
RetSet == IF P.algo = "DOO" THEN DooUnevaluated(T, f) ELSE IF Pt.kind = "act" THEN Pt.ret ELSE {}

SweepExpand ==
  /\ mode = "sweep"
  /\ \E p \in ExpSet :
       /\ T' = MkB(P, T, p, [j \in 1 .. K |-> NoBox])
       /\ f' = f \o [j \in 1 .. K |-> FreshF]
       /\ cur' = IF P.algo = "DOO" THEN cur ELSE <<Pt.h + 1, Pt.val>>
       /\ hist' = Append(hist, <<"x", p, 0>>)
  /\ nexp' = nexp + 1 /\ UNCHANGED <<mode, askedc>>

PullReturn ==
  /\ mode = "sweep"
  /\ \E c \in RetSet :
       /\ askedc' = c
       /\ f' = IF P.algo \in {"SOO", "DOO"} THEN [f EXCEPT ![c][1] = 1] ELSE f
  /\ mode' = "asked" /\ UNCHANGED <<T, cur, nexp, hist>>

Receive ==
  /\ mode = "asked"
  /\ \E r \in SeqRange(P.rewards) :
       LET c  == askedc
           f1 == IF P.algo = "StoSOO" THEN [f EXCEPT ![c][1] = @ + 1, ![c][2] = @ + r, ![c][3] = @ + 1]
                 ELSE [f EXCEPT ![c][2] = r]
       IN /\ f' = [f1 EXCEPT ![c][5] = BNow(f1, T, c)]
          /\ hist' = Append(hist, <<"r", c, r>>)
  /\ mode' = "idle" /\ UNCHANGED <<T, cur, nexp, askedc>>

Next == PullBegin \/ SweepExpand \/ PullReturn \/ Receive
Spec == Init /\ [][Next]_vars

----------------------------------------------------------------------------
Cap == IF P.algo = "StoSOO" THEN P.k ELSE 1
\* C08
InvEvalCap      == \A c \in Cells(T) : N(f, c) <= Cap
InvExpandedWereEvaluated == \A c \in Cells(T) : ~IsLeaf(T, c) => N(f, c) = Cap /\ (P.algo # "StoSOO" => V(f, c) # NInf)
InvDepthCap     == P.algo \in {"SOO", "StoSOO"} => \A c \in Cells(T) : N(f, c) >= 1 => T.dep[c] <= P.hmax
InvNoStuck      == mode = "sweep" => (ExpSet # {} \/ RetSet # {})                 \* a pull always makes progress (C01)
InvSweepBounded == nexp <= T.pdepth + 1
InvDooOne       == P.algo = "DOO" => nexp <= 1
\* a leaf is expanded only while no unevaluated leaf precedes it in the sweep; the expanded leaf is the best of its depth
StepExpandRule ==
  [][ (T'.n > T.n) =>
        LET p == CHOOSE c \in Cells(T) : IsLeaf(T, c) /\ ~IsLeaf(T', c) IN
        /\ N(f, p) = Cap
        /\ \A d \in AllLeaves(T) : (N(f, d) = 0 /\ P.algo # "StoSOO") => T.dep[d] > T.dep[p]
        /\ P.algo = "SOO" => \A d \in LeavesAt(T, T.dep[p]) : V(f, p) >= V(f, d)
        /\ P.algo = "SOO" => V(f, p) >= cur[2]
        /\ P.algo = "StoSOO" => \A d \in LeavesAt(T, T.dep[p]) : Bv(f, p) >= Bv(f, d)
        /\ P.algo = "DOO" => \A d \in AllLeaves(T) : N(f, d) = 1 => Bv(f, p) >= Bv(f, d) ]_vars
\* C04: evidence = fold of the history
InvHistory ==
  \A c \in Cells(T) :
     LET mine == SelectSeq(hist, LAMBDA x : x[1] = "r" /\ x[2] = c) IN
     IF P.algo = "StoSOO" THEN N(f, c) = Len(mine) /\ V(f, c) = FoldLeft(LAMBDA a, x : a + x[3], 0, mine)
     ELSE (mine = <<>> /\ (V(f, c) = R0 \/ mode = "asked")) \/ (Len(mine) = 1 /\ V(f, c) = mine[1][3])
\* C07 at the design level: the recommendation sets are never empty once something was evaluated
InvRec == (mode = "idle" /\ Len(hist) > 0) => (IF P.algo = "StoSOO" THEN RecStoSOO(T, f) # {} ELSE RecBestEvaluated(T, f) # {})
InvStruct == StructOK(P, T)

Terminal == mode = "idle" /\ Len(SelectSeq(hist, LAMBDA x : x[1] = "r")) = P.R
RoundsDone == Len(SelectSeq(hist, LAMBDA x : x[1] = "r"))
Bound == RoundsDone <= P.R
Emit == (P.emit = 1 /\ mode = "idle" /\ RoundsDone = P.R) => PrintT(<<"BEHAVIOUR", ToJson(hist)>>)
=============================================================================
