--------------------------------- MODULE FP ---------------------------------
(* Fixed-point helpers.  Values are integers in units of 1/S; +-infinity are  *)
(* the sentinels PInf / NInf (no finite code reaches them).  TLC integers are *)
(* 32 bit: every operator below keeps its intermediates below 2^31 for the    *)
(* argument ranges stated in DESIGN.md section 2.                             *)
EXTENDS Naturals, Integers

PInf == 2000000000
NInf == -2000000000
IsInf(x) == x = PInf \/ x = NInf

AbsI(x) == IF x < 0 THEN -x ELSE x
MinI(a, b) == IF a <= b THEN a ELSE b
MaxI(a, b) == IF a >= b THEN a ELSE b

\* floor division that is also correct for negative numerators (TLC's \div floors already)
FloorDiv(a, b) == a \div b
\* nearest-integer division, b > 0
RoundDiv(a, b) == (2 * a + b) \div (2 * b)

\* floor(sqrt(x)) for 0 <= x < 2^31, by bisection on [0, 46341)
RECURSIVE SqrtBis(_, _, _)
SqrtBis(x, lo, hi) ==     \* invariant lo^2 <= x < hi^2
  IF hi - lo <= 1 THEN lo
  ELSE LET mid == (lo + hi) \div 2 IN
       IF mid * mid <= x THEN SqrtBis(x, mid, hi) ELSE SqrtBis(x, lo, mid)
ISqrt(x) == IF x <= 0 THEN 0 ELSE SqrtBis(x, 0, 46341)

\* addition that propagates infinities
AddI(a, b) == IF a = PInf \/ b = PInf THEN PInf ELSE IF a = NInf \/ b = NInf THEN NInf ELSE a + b

Close(a, b, tol) == IF IsInf(a) \/ IsInf(b) THEN a = b ELSE AbsI(a - b) <= tol
=============================================================================
