---------------------------- MODULE Trace_Session ----------------------------
(***************************************************************************)
(* Trace validation, session level: the documented ask/tell protocol       *)
(* (C01), every make_children performed by any algorithm explained by the  *)
(* partition specification (C02, C03), every returned point a d-vector of  *)
(* finite numbers inside the user's box (C01), the user's domain object    *)
(* untouched (C14).  Independent of reward arithmetic: coordinates are     *)
(* rank coded, so any finite floats (huge, tiny, negative) are handled.    *)
(*                                                                         *)
(* A batch file holds many traces; TLC picks every trace id in Init and    *)
(* walks it deterministically; one verdict line per trace.                 *)
(***************************************************************************)
EXTENDS TraceTree, Json, IOUtils, TLCExt

Traces == JsonDeserialize(IOEnv.TRACE_FILE)

VARIABLES tid, l, T, ph, err, soft, done
vars == <<tid, l, T, ph, err, soft, done>>

Tr  == Traces[tid]
PP  == Tr.P
Ev  == Tr.ev

NoTree == [n |-> 0]

Init ==
  /\ tid \in 1 .. Len(Traces)
  /\ l = 1 /\ T = NoTree /\ ph = "new" /\ err = "ok" /\ soft = "ok" /\ done = FALSE

\* geometric clauses (C02) do not invalidate the structural state: the walk goes on with the observed boxes, so that
\* a later consequence (e.g. a point outside the user's box, C01) is still reached; the first one is kept in `soft`
SoftSet == {"mk.tiling", "mk.centre", "mk.widths", "mk.cuts", "mk.replay-mismatch", "init.tiling", "init.centre", "init.widths"}
Hard(c) == IF c \in SoftSet THEN "ok" ELSE c
Soft(c) == IF c \in SoftSet /\ soft = "ok" THEN c ELSE soft

InsideUserBox(pt) == PointInside(pt, Tr.xbox[1]) /\ \A x \in DOMAIN pt : pt[x] >= 1

CallCheck(e) ==
  IF Has(e, "hang") THEN "call.hangs"
  ELSE IF Has(e, "exc") THEN "call.raises"
  ELSE IF T.n > 0 /\ (~NoStructChange(e) \/ e.pd # T.pdepth) THEN "call.struct-change"
  ELSE IF e.k \in {"pull", "glp"} /\ e.ptok # 1 THEN "call.not-a-point"
  ELSE IF e.k \in {"pull", "glp"} /\ ~InsideUserBox(e.pt) THEN "call.outside-box"
  ELSE "ok"

Step ==
  /\ ~done /\ err = "ok" /\ l <= Len(Ev)
  /\ LET e == Ev[l] IN
     CASE e.k = "init" ->
            \* "sessiononly" marks a session driven for the protocol / point clauses alone (C01 at the ends of the float
            \* range, where the geometric clauses of C02 are not what is being asked)
            LET c == IF Has(PP, "sessiononly") THEN "ok" ELSE InitCheck(PP, e) IN
            /\ err' = IF Hard(c) # "ok" THEN c
                      ELSE IF e.cells[1].box # Tr.xbox[1] THEN "init.rootbox" ELSE "ok"
            /\ soft' = Soft(c)
            /\ T' = TreeOfInit(e) /\ ph' = "told"
       [] e.k = "init0" -> err' = "ok" /\ T' = T /\ ph' = "told"
       [] e.k = "mk" ->
            LET c == IF T.n = 0 THEN "mk.no-tree" ELSE MkCheck(PP, T, e) IN
            /\ err' = Hard(c)
            /\ soft' = Soft(c)
            /\ T' = IF Hard(c) = "ok" THEN MkApply(PP, T, e) ELSE T
            /\ ph' = ph
       [] e.k = "pull" ->
            /\ err' = IF ph # "told" THEN "protocol" ELSE CallCheck(e)
            /\ T' = T /\ ph' = "asked"
       [] e.k = "recv" ->
            /\ err' = IF ph # "asked" THEN "protocol" ELSE CallCheck(e)
            /\ T' = T /\ ph' = "told"
       [] e.k = "glp" ->
            /\ err' = IF ph # "told" THEN "protocol" ELSE CallCheck(e)
            /\ T' = T /\ ph' = ph
       [] e.k = "final" ->
            /\ err' = IF T.n > 0 /\ (~NoStructChange(e) \/ e.pd # T.pdepth) THEN "final.struct-change" ELSE "ok"
            /\ T' = T /\ ph' = ph
       \* the class consumed the scripted random draws differently from the behaviour: not an error by itself (the boxes it
       \* produced have been compared with the behaviour's cuts, mk.replay-mismatch); counted in the evidence
       [] e.k = "script" -> err' = "ok" /\ T' = T /\ ph' = ph
       [] e.k = "diverged" -> err' = "mk.replay-mismatch" /\ T' = T /\ ph' = ph
       [] e.k = "ctor" -> err' = "ctor.raises" /\ T' = T /\ ph' = ph
       [] e.k = "end" ->
            /\ err' = IF e.dom_same # 1 THEN "end.domain-mutated"
                      ELSE IF T.n > 0 /\ ~StructOK(PP, T) THEN "final.struct"
                      ELSE IF T.n > 0 /\ ~AllInsideRoot(T) THEN "final.outside-root" ELSE "ok"
            /\ T' = T /\ ph' = ph
       [] OTHER -> err' = "unknown-event" /\ T' = T /\ ph' = ph
  /\ l' = l + 1 /\ UNCHANGED <<tid, done>>
  /\ (Ev[l].k \in {"init", "mk"}) \/ UNCHANGED soft

Finish ==
  /\ ~done /\ (err # "ok" \/ l > Len(Ev))
  /\ PrintT(<<"VERDICT", Tr.id, IF err # "ok" THEN err ELSE soft, l - 1, IF T.n > 0 THEN T.n ELSE 0,
              \* secondary clauses: the soft geometric clause when a hard one ended the walk, and the closing event's
              \* domain flag, which is examined even when an earlier clause stopped the walk (C14)
              (IF err # "ok" THEN soft ELSE "ok") \o "|" \o
              (IF err # "ok" /\ err # "end.domain-mutated" /\ Ev[Len(Ev)].k = "end" /\ Ev[Len(Ev)].dom_same # 1 THEN "end.domain-mutated" ELSE "ok")>>)
  /\ done' = TRUE /\ UNCHANGED <<tid, l, T, ph, err, soft>>

Next == Step \/ Finish
Spec == Init /\ [][Next]_vars

=============================================================================
