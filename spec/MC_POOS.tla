------------------------------ MODULE MC_POOS ------------------------------
(* POO's schedule under the REAL branch-condition tables of a grid of rho_max  *)
(* (thresholds computed by harness/consts.py from N <= 0.5 Dmax ln(n/ln n)),   *)
(* run for P.R rounds; the schedule is reward independent, rewards alternate   *)
(* between two letters so that means are not trivially constant.  Same         *)
(* invariants as MC_POO, including "the running mean as coded is the true      *)
(* mean".                                                                      *)
EXTENDS POO, Json, IOUtils
P == JsonDeserialize(IOEnv.MC_PARAMS)
VARIABLES G, thr, mode, rounds, coded, times
vars == <<G, thr, mode, rounds, coded, times>>
RECURSIVE Gcd(_, _)
Gcd(a, b) == IF b = 0 THEN a ELSE Gcd(b, a % b)
Abs(x) == IF x < 0 THEN -x ELSE x
Norm(q) == LET g == Gcd(Abs(q[1]), q[2]) IN IF g = 0 THEN q ELSE <<q[1] \div g, q[2] \div g>>
RunMean(v, k, r) == Norm(<<v[1] * k + r * v[2], v[2] * (k + 1)>>)
Init == /\ \E i \in DOMAIN P.tables : thr = [k \in 0 .. Len(P.tables[i]) - 1 |-> P.tables[i][k + 1]]
        /\ G = PInit /\ mode = "told" /\ rounds = 0 /\ coded = <<>> /\ times = <<>>
DoPull == /\ mode = "told" /\ rounds < P.R
          /\ LET r == Pull(thr, G) IN
             /\ G' = r.G
             /\ coded' = IF Len(r.G.lp) > Len(G.lp) THEN Append(coded, <<0, 1>>) ELSE coded
             /\ times' = IF Len(r.G.lp) > Len(G.lp) THEN Append(times, 0) ELSE times
          /\ mode' = "asked" /\ UNCHANGED <<thr, rounds>>
DoRecv == /\ mode = "asked"
          /\ LET r == 1 + (rounds % 2)
                 res == Receive(thr, G, r)  i == res.who
                 k == IF Cr(thr, G.N, G.n) THEN G.counter ELSE G.n \div G.N
             IN /\ G' = res.G
                /\ coded' = [coded EXCEPT ![i] = RunMean(@, k, r)]
                /\ times' = [times EXCEPT ![i] = @ + 1]
          /\ mode' = "told" /\ rounds' = rounds + 1 /\ UNCHANGED thr
Next == DoPull \/ DoRecv
Spec == Init /\ [][Next]_vars
InvSchedule == mode = "told" => ScheduleOK(thr, G)
InvGrid     == GridDistinct(G) /\ GridBelowRhomax(G)
InvRouting  == RoutingOK(G)
InvCodedMean == \A i \in DOMAIN coded :
                   /\ times[i] = Len(G.lr[i])
                   /\ G.lr[i] # <<>> => coded[i][1] * Len(G.lr[i]) = Sum(G.lr[i]) * coded[i][2]
=============================================================================
