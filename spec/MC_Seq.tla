------------------------------- MODULE MC_Seq -------------------------------
(* Exhaustive model of SequOOL: every reward sequence over P.rewards up to   *)
(* P.R rounds, every tie-break, for the hmax in P.                          *)
EXTENDS SequOOL, Json, IOUtils
P == JsonDeserialize(IOEnv.MC_PARAMS)
K == Arity(P)
VARIABLES T, f, s, mode, askedc, hist
vars == <<T, f, s, mode, askedc, hist>>
NoBox == <<>>
Fresh == <<0, NInf, 0>>
Init == T = RootTree(NoBox) /\ f = <<Fresh>> /\ s = SInit /\ mode = "told" /\ askedc = 0 /\ hist = <<>>

PullOpen ==      \* a new cell is opened: expand it and hand out its first child
  /\ mode = "told" /\ Len(hist) < P.R /\ ~Exhausted(P.hmax, s) /\ s.loc = 0
  /\ \E t \in Targets(T, f, s) :
       LET T1 == MkB(P, T, t, [j \in 1 .. K |-> NoBox])
           f1 == f \o [j \in 1 .. K |-> Fresh]
           r  == Serve(P.hmax, T1, f1, s, t)
       IN /\ T' = T1 /\ s' = r.s /\ askedc' = r.cell
          /\ f' = IF r.opens THEN [f1 EXCEPT ![t][3] = 1] ELSE f1
  /\ mode' = "asked" /\ UNCHANGED hist
PullNext ==      \* next child of the cell being opened
  /\ mode = "told" /\ Len(hist) < P.R /\ ~Exhausted(P.hmax, s) /\ s.loc > 0
  /\ LET r == Serve(P.hmax, T, f, s, s.tgt) IN
       /\ s' = r.s /\ askedc' = r.cell /\ f' = IF r.opens THEN [f EXCEPT ![s.tgt][3] = 1] ELSE f
  /\ mode' = "asked" /\ UNCHANGED <<T, hist>>
PullCentre ==    \* schedule exhausted
  /\ mode = "told" /\ Len(hist) < P.R /\ Exhausted(P.hmax, s)
  /\ askedc' = 1 /\ mode' = "asked" /\ UNCHANGED <<T, f, s, hist>>
Receive ==
  /\ mode = "asked"
  /\ \E r \in SeqRange(P.rewards) :
       /\ f' = [f EXCEPT ![askedc][1] = @ + 1, ![askedc][2] = IF f[askedc][1] = 0 THEN r ELSE @]
       /\ hist' = Append(hist, <<askedc, r>>)
  /\ mode' = "told" /\ UNCHANGED <<T, s, askedc>>
Next == PullOpen \/ PullNext \/ PullCentre \/ Receive
Spec == Init /\ [][Next]_vars

InvBudget == BudgetOK(P.hmax, T, f)
InvOpenedHaveAllChildrenEvaluated ==
  mode = "told" => \A c \in Cells(T) : Opened(f, c) => \A j \in DOMAIN T.kids[c] : Nrew(f, T.kids[c][j]) = 1
InvOpenOrder ==   \* children are evaluated in child-list order: evaluated kids form a prefix
  \A c \in Cells(T) : ~IsLeaf(T, c) => \A i, j \in DOMAIN T.kids[c] : (i < j /\ Nrew(f, T.kids[c][j]) = 1) => (Nrew(f, T.kids[c][i]) = 1 \/ (mode = "asked" /\ FALSE))
InvHistory == \A c \in Cells(T) : Nrew(f, c) = Len(SelectSeq(hist, LAMBDA x : x[1] = c))
InvRec == (mode = "told" /\ hist # <<>> /\ EvaluatedS(T, f) # {}) => RecBest(T, f) # {}
InvStruct == StructOK(P, T)
\* once exhausted nothing but the root's reward list changes, so the recommendation set is frozen
StepExhausted == [][(Exhausted(P.hmax, s) /\ (mode = "told" \/ askedc = 1)) => (T' = T /\ s' = s /\ RecBest(T', f') = RecBest(T, f))]_vars
\* each opened cell is an unopened cell of the current depth with the highest reward
StepOpenBest == [][ (T'.n > T.n) =>
                      LET t == CHOOSE c \in Cells(T) : IsLeaf(T, c) /\ ~IsLeaf(T', c) IN
                      /\ T.dep[t] = s.dep /\ ~Opened(f, t) /\ T.dep[t] <= P.hmax
                      /\ s.dep > 0 => \A d \in Unopened(T, f, s.dep) : Rew(f, t) >= Rew(f, d) ]_vars
Emit == (P.emit = 1 /\ mode = "told" /\ Len(hist) = P.R) => PrintT(<<"BEHAVIOUR", ToJson(hist)>>)
=============================================================================
