------------------------------ MODULE MC_Affine ------------------------------
(***************************************************************************)
(* C16 at the design level: the partition step commutes with positive       *)
(* affine maps.  Two trees are grown in lock step, T1 on the lattice box     *)
(* [0,W]^D and T2 on its image under x |-> Shift + Scale*x, from the same    *)
(* choices (cell, split dimension, cut vector / image of the cut vector).    *)
(* Invariants: the image cut vector is admissible for the class on the       *)
(* image cell, the two structures are identical and every box of T2 is the   *)
(* image of the corresponding box of T1 -- so anything that reads only       *)
(* structure, labels and the order of coordinates behaves identically.       *)
(***************************************************************************)
EXTENDS PartitionTree
CONSTANTS Kind, KK, DD, W, MaxCells, MaxDepth, Scale, Shift, Neg     \* translation by -Shift when Neg (cfg files have no negative literals)
P == [kind |-> Kind, K |-> KK, D |-> DD, metric |-> "lattice"]
VARIABLES T1, T2, okcuts
vars == <<T1, T2, okcuts>>
Map(v) == (IF Neg THEN -Shift ELSE Shift) + Scale * v
MapBox(b) == [x \in DOMAIN b |-> <<Map(b[x][1]), Map(b[x][2])>>]
Root1 == [x \in 1 .. DD |-> <<0, W>>]
Init == T1 = RootTree(Root1) /\ T2 = RootTree(MapBox(Root1)) /\ okcuts = TRUE
Dims == IF Kind = "dbin" THEN {1} ELSE 1 .. DD
CutSet(pbox, dim) ==
  IF Kind = "dbin" THEN {c \in [1 .. DD -> 0 .. W] : CutsOK(P, pbox, 1, c)}
  ELSE IF Kind \in {"bin", "kary"}
  THEN LET lo == pbox[dim][1]  hi == pbox[dim][2]  K == Arity(P)
           c == [j \in 1 .. K + 1 |-> lo + (j - 1) * ((hi - lo) \div K)]
       IN IF CutsOK(P, pbox, dim, c) THEN {c} ELSE {}
  ELSE {c \in [1 .. Arity(P) + 1 -> pbox[dim][1] .. pbox[dim][2]] : CutsOK(P, pbox, dim, c)}
Next ==
  \E p \in Leaves(T1) :
    /\ T1.dep[p] < MaxDepth /\ T1.n + Arity(P) <= MaxCells
    /\ \E dim \in Dims : \E cuts \in CutSet(T1.box[p], dim) :
         LET icuts == [j \in DOMAIN cuts |-> Map(cuts[j])] IN
         /\ T1' = Mk(P, T1, p, dim, cuts)
         /\ T2' = Mk(P, T2, p, dim, icuts)
         /\ okcuts' = (okcuts /\ CutsOK(P, T2.box[p], dim, icuts))
Spec == Init /\ [][Next]_vars
InvCutLawInvariant == okcuts
InvSameStructure == /\ T1.n = T2.n /\ T1.parent = T2.parent /\ T1.kids = T2.kids /\ T1.dep = T2.dep
                    /\ T1.idx = T2.idx /\ T1.layers = T2.layers /\ T1.pdepth = T2.pdepth
InvImageBoxes == \A c \in Cells(T1) : T2.box[c] = MapBox(T1.box[c])
InvOrderPreserved ==      \* hence every order statement about coordinates transfers (containment, tiling)
  /\ EveryParentTiled(P, T1) <=> EveryParentTiled(P, T2)
  /\ \A c, d \in Cells(T1) : BoxInside(T1.box[c], T1.box[d]) <=> BoxInside(T2.box[c], T2.box[d])
=============================================================================
