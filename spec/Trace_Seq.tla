----------------------------- MODULE Trace_Seq -----------------------------
(* Trace validation of SequOOL runs against SequOOL.tla. *)
EXTENDS SequOOL, TraceTree, Json, IOUtils, TLCExt

Traces == JsonDeserialize(IOEnv.TRACE_FILE)
VARIABLES tid, l, T, f, s, pend, asked, ph, err, done
vars == <<tid, l, T, f, s, pend, asked, ph, err, done>>
Tr == Traces[tid]
PP == Tr.P
Ev == Tr.ev
HMax == PP.hmax

ApplyFc(ff, fc) == FoldLeft(LAMBDA acc, x : IF x[1] \in DOMAIN acc THEN [acc EXCEPT ![x[1]] = SubSeq(x, 2, 4)] ELSE acc, ff, fc)
ChangedCells(ff, g) == {c \in DOMAIN ff : ff[c] # g[c]}
FreshCell(x) == x[2] = 0 /\ x[3] = NInf /\ x[4] = 0

Init == /\ tid \in 1 .. Len(Traces) /\ l = 1 /\ ph = "new" /\ err = "ok" /\ done = FALSE
        /\ T = [n |-> 0] /\ f = <<>> /\ s = SInit /\ pend = 0 /\ asked = 0

CallFail(e) == IF Has(e, "hang") THEN "call.hangs" ELSE IF Has(e, "exc") THEN "call.raises"
               ELSE IF e.k \in {"pull", "glp"} /\ e.ptok # 1 THEN "call.not-a-point"
               ELSE IF ~NoStructChange(e) \/ e.pd # T.pdepth THEN "call.struct-change" ELSE "ok"

MkStep(e) ==
  LET c0 == MkCheckEv(PP, T, e, LAMBDA d : f[d][1] > 0) IN
  IF c0 # "ok" THEN [T |-> T, f |-> f, pend |-> pend, err |-> c0]
  ELSE IF ph # "told" \/ pend # 0 THEN [T |-> T, f |-> f, pend |-> pend, err |-> "seq.unexpected-expansion"]
  ELSE IF Exhausted(HMax, s) THEN [T |-> T, f |-> f, pend |-> pend, err |-> "seq.opened-after-exhaustion"]
  ELSE IF s.loc # 0 THEN [T |-> T, f |-> f, pend |-> pend, err |-> "seq.opened-while-another-is-open"]
  ELSE IF ~(e.p \in Targets(T, f, s)) THEN
         [T |-> T, f |-> f, pend |-> pend,
          err |-> IF T.dep[e.p] # s.dep THEN "seq.wrong-depth" ELSE IF Opened(f, e.p) THEN "seq.reopened" ELSE "seq.not-best-unopened"]
  ELSE IF e.fc # <<>> \/ ~(\A j \in DOMAIN e.nf : FreshCell(e.nf[j])) THEN [T |-> T, f |-> f, pend |-> pend, err |-> "seq.new-cell-not-fresh"]
  ELSE [T |-> MkApply(PP, T, e), f |-> f \o [j \in DOMAIN e.nf |-> SubSeq(e.nf[j], 2, 4)], pend |-> e.p, err |-> "ok"]

PullStep(e) ==
  LET cs == SeqRange(e.cands)
      f1 == ApplyFc(f, e.fc)
  IN
  IF Exhausted(HMax, s)
  THEN [f |-> f1, s |-> s, asked |-> 1,
        err |-> IF ~(1 \in cs) THEN "seq.exhausted-not-centre" ELSE IF e.fc # <<>> THEN "stats.pull-mutates" ELSE "ok"]
  ELSE LET ts == IF pend # 0 THEN {pend} ELSE IF s.loc > 0 THEN {s.tgt} ELSE {} IN
       IF ts = {} THEN [f |-> f1, s |-> s, asked |-> 0, err |-> "seq.missing-expansion"]
       ELSE LET t == CHOOSE x \in ts : TRUE
                r == Serve(HMax, T, f, s, t)
                want == IF r.opens THEN [f EXCEPT ![t][3] = 1] ELSE f
            IN [f |-> f1, s |-> r.s, asked |-> r.cell,
                err |-> IF ~(r.cell \in cs) THEN "seq.wrong-child-order"
                        ELSE IF Nrew(f, r.cell) # 0 THEN "seq.evaluated-twice"
                        ELSE IF f1 # want THEN "seq.open-flag" ELSE "ok"]

RecvStep(e) ==
  LET f1 == ApplyFc(f, e.fc)
      c  == asked
      want == [f EXCEPT ![c][1] = @ + 1, ![c][2] = IF Nrew(f, c) = 0 THEN e.r ELSE @]
  IN [f |-> f1, err |-> IF Exhausted(HMax, s) /\ c = 1 /\ ChangedCells(f, f1) \ {1} # {} THEN "seq.evidence-changed-after-exhaustion"   \* C12: further pulls do not alter the search cells
                        ELSE IF ChangedCells(f, f1) \ {c} # {} THEN "credit.wrong-cell" ELSE IF f1 # want THEN "credit.reward" ELSE "ok"]

GlpStep(e) ==
  LET cs == SeqRange(e.cands) IN
  IF e.fc # <<>> THEN "rec.mutates"
  ELSE IF EvaluatedS(T, f) = {} THEN "ok"
  ELSE IF cs \cap EvaluatedS(T, f) = {} THEN "rec.never-evaluated"
  ELSE IF cs \cap RecBest(T, f) = {} THEN "rec.not-best" ELSE "ok"

Step ==
  /\ ~done /\ err = "ok" /\ l <= Len(Ev)
  /\ LET e == Ev[l] IN
     CASE e.k = "init" ->
            LET c0 == InitCheck(PP, e) IN
            /\ T' = TreeOfInit(e) /\ f' = [c \in DOMAIN e.f |-> SubSeq(e.f[c], 1, 3)] /\ ph' = "told"
            /\ err' = IF c0 # "ok" THEN c0 ELSE IF ~(Len(e.cells) = 1 /\ FreshCell(<<1>> \o e.f[1])) THEN "seq.init" ELSE "ok"
            /\ UNCHANGED <<s, pend, asked>>
       [] e.k = "mk" ->
            LET r == MkStep(e) IN
            /\ T' = r.T /\ f' = r.f /\ pend' = r.pend /\ err' = r.err /\ UNCHANGED <<s, asked, ph>>
       [] e.k = "pull" ->
            LET c0 == CallFail(e) IN
            IF ph # "told" THEN err' = "protocol" /\ UNCHANGED <<T, f, s, pend, asked, ph>>
            ELSE IF c0 # "ok" THEN err' = c0 /\ UNCHANGED <<T, f, s, pend, asked, ph>>
            ELSE LET r == PullStep(e) IN
                 /\ f' = r.f /\ s' = r.s /\ asked' = r.asked /\ err' = r.err /\ ph' = "asked" /\ pend' = 0 /\ UNCHANGED T
       [] e.k = "recv" ->
            LET c0 == CallFail(e) IN
            IF ph # "asked" THEN err' = "protocol" /\ UNCHANGED <<T, f, s, pend, asked, ph>>
            ELSE IF c0 # "ok" THEN err' = c0 /\ UNCHANGED <<T, f, s, pend, asked, ph>>
            ELSE LET r == RecvStep(e) IN
                 /\ f' = r.f /\ err' = r.err /\ ph' = "told" /\ UNCHANGED <<T, s, pend, asked>>
       [] e.k = "glp" ->
            LET c0 == CallFail(e) IN
            /\ err' = (IF c0 # "ok" THEN c0 ELSE GlpStep(e))
            /\ UNCHANGED <<T, f, s, pend, asked, ph>>
       [] e.k = "end" -> /\ err' = IF ~StructOK(PP, T) THEN "final.struct" ELSE IF ~BudgetOK(HMax, T, f) THEN "seq.budget" ELSE "ok"
                        /\ UNCHANGED <<T, f, s, pend, asked, ph>>
       [] OTHER -> err' = "unknown-event" /\ UNCHANGED <<T, f, s, pend, asked, ph>>
  /\ l' = l + 1 /\ UNCHANGED <<tid, done>>

Finish ==
  /\ ~done /\ (err # "ok" \/ l > Len(Ev))
  /\ PrintT(<<"VERDICT", Tr.id, err, l - 1, IF T.n > 0 THEN T.n ELSE 0>>)
  /\ done' = TRUE /\ UNCHANGED <<tid, l, T, f, s, pend, asked, ph, err>>
Next == Step \/ Finish
Spec == Init /\ [][Next]_vars
=============================================================================
