------------------------------ MODULE MC_GPOS ------------------------------
(* The GPO schedule for MANY (N, half) pairs in one run: the pairs are read   *)
(* from the JSON file named by MC_PARAMS (the real (N, half) of every budget  *)
(* n in a range and every rho_max of a grid, computed by harness/consts.py).  *)
(* The schedule is reward independent, so one reward letter suffices; every   *)
(* pair is run to completion plus two extra rounds.                          *)
EXTENDS GPO, Json, IOUtils
P == JsonDeserialize(IOEnv.MC_PARAMS)
VARIABLES nn, hh, G, mode, rounds, lastret
vars == <<nn, hh, G, mode, rounds, lastret>>
Init == /\ \E i \in DOMAIN P.pairs : nn = P.pairs[i][1] /\ hh = P.pairs[i][2]
        /\ G = GInit /\ mode = "told" /\ rounds = 0 /\ lastret = {}
DoPull == /\ mode = "told" /\ rounds < 2 * hh * nn + 2
          /\ LET r == Pull(nn, hh, G) IN G' = r.G /\ lastret' = r.ret
          /\ mode' = "asked" /\ UNCHANGED <<nn, hh, rounds>>
DoRecv == /\ mode = "asked" /\ G' = Receive(nn, hh, G, 1).G
          /\ mode' = "told" /\ rounds' = rounds + 1 /\ UNCHANGED <<nn, hh, lastret>>
Next == DoPull \/ DoRecv
Spec == Init /\ [][Next]_vars
InvLearners   == LearnersOK(nn, hh, G)
InvValidation == ValidationOK(nn, hh, G)
InvBudget     == mode = "told" => BudgetOK(nn, hh, G, rounds)
InvFinal == (Finished(nn, G) /\ mode = "asked") => (lastret # {} /\ \A pt \in lastret : \E i \in 1 .. nn : pt = <<i, hh>>)
InvFits == 2 * hh * nn <= P.nmax          \* the whole schedule fits the largest budget that produced the pair
=============================================================================
