SPECIFICATION Spec
INVARIANT InvInsideRoot
INVARIANT InvFinalStruct
CHECK_DEADLOCK FALSE
