----------------------------- MODULE SOOFamily -----------------------------
(***************************************************************************)
(* SOO, StoSOO and DOO (PyXAB/algos/SOO.py, StoSOO.py, DOO.py) from the     *)
(* published pseudo-code (docs/.../SOO.png, StoSOO.png, DOO.png).           *)
(*                                                                         *)
(* A pull is a little program: a top-down sweep over the depths that may    *)
(* expand cells on its way and ends by handing out one cell.  The sweep is  *)
(* described by its micro-steps: from a cursor <<h, vmax>> the operator     *)
(* Point(...) gives the next thing that happens -- hand out a cell of a     *)
(* given set, or expand a cell of a given set -- and is nondeterministic    *)
(* exactly where the property is silent (which of several maximal cells,    *)
(* which unevaluated leaf of the first depth that has one).                 *)
(*                                                                         *)
(* Evidence per cell: f[c] = <<n, v, nrew, mean, b>>                        *)
(*   SOO / DOO : n = evaluated flag, v = reward (units 1/RU; NInf = none)   *)
(*   StoSOO    : n = number of evaluations, v = sum of rewards, b = b-value *)
(* P: algo, hmax (SOO/StoSOO depth cap), k (StoSOO), S, RU,                 *)
(*    w2 = round(S^2 ln(nk/delta)/2) (StoSOO), dl[h+1] = round(S delta(h))  *)
(*    (DOO with a user delta; default delta: observed per depth)            *)
(***************************************************************************)
EXTENDS PartitionTree, FP

LeavesAt(T, h) == IF h + 1 \in DOMAIN T.layers THEN {c \in SeqRange(T.layers[h + 1]) : IsLeaf(T, c)} ELSE {}
N(f, c)  == f[c][1]
V(f, c)  == f[c][2]
Bv(f, c) == f[c][5]

\* of a set of cells of one depth, the one that comes first in that depth's list ("first in top-down order")
PosIn(seq, c) == CHOOSE i \in DOMAIN seq : seq[i] = c
FirstInLayer(T, cs) ==
  IF cs = {} THEN {}
  ELSE LET L == T.layers[T.dep[CHOOSE c \in cs : TRUE] + 1] IN {c \in cs : \A d \in cs : PosIn(L, c) <= PosIn(L, d)}

ArgMax(cells, val(_)) == {c \in cells : \A d \in cells : val(c) >= val(d)}

\* the value a cell competes with inside its depth
Val(P, f, c) == IF P.algo = "SOO" THEN V(f, c) ELSE Bv(f, c)

\* StoSOO's published b-value
BStoSOO(P, f, c) == IF N(f, c) = 0 THEN PInf
                    ELSE RoundDiv(V(f, c) * P.S, N(f, c) * P.RU) + ISqrt(P.w2 \div N(f, c))

(***************************************************************************)
(* One micro-step.  Result: [ret |-> set of cells that may be handed out,   *)
(*                           exp |-> set of cells that may be expanded,     *)
(*                           val |-> value an expansion raises vmax to]     *)
(* both sets empty = nothing happens at this depth.                        *)
(***************************************************************************)
AtDepth(P, T, f, h, vmax) ==
  LET L == LeavesAt(T, h) IN
  IF L = {} THEN [ret |-> {}, exp |-> {}, val |-> vmax]
  ELSE IF P.algo = "SOO"
  THEN LET un == {c \in L : N(f, c) = 0} IN
       IF un # {} THEN [ret |-> FirstInLayer(T, un), exp |-> {}, val |-> vmax]
       ELSE LET best == ArgMax(L, LAMBDA c : V(f, c))
                m == V(f, CHOOSE c \in best : TRUE)
            IN IF m >= vmax THEN [ret |-> {}, exp |-> best, val |-> m] ELSE [ret |-> {}, exp |-> {}, val |-> vmax]
  ELSE \* StoSOO
       LET best == ArgMax(L, LAMBDA c : Bv(f, c))
           m == Bv(f, CHOOSE c \in best : TRUE)
       IN IF m >= vmax
          THEN [ret |-> {c \in best : N(f, c) < P.k}, exp |-> {c \in best : N(f, c) >= P.k}, val |-> m]
          ELSE [ret |-> {}, exp |-> {}, val |-> vmax]

\* last depth a sweep looks at (evaluated against the tree as it is at that moment)
LastDepth(P, T) == IF P.algo = "SOO" THEN MinI(T.pdepth, P.hmax) ELSE MinI(T.pdepth + 1, P.hmax)

\* first depth >= h at which something happens; SOO starts a new sweep when it falls off the end
\* (fuel bounds the search: a sweep in which nothing can happen is a hang, reported as "stuck")
RECURSIVE Point(_, _, _, _, _, _)
Point(P, T, f, h, vmax, fuel) ==
  IF fuel = 0 THEN [kind |-> "stuck"]
  ELSE IF h > LastDepth(P, T)
       THEN IF P.algo = "SOO" THEN Point(P, T, f, 0, NInf, fuel - 1) ELSE [kind |-> "falls-off"]
  ELSE LET a == AtDepth(P, T, f, h, vmax) IN
       IF a.ret = {} /\ a.exp = {} THEN Point(P, T, f, h + 1, vmax, fuel)
       ELSE [kind |-> "act", h |-> h, ret |-> a.ret, exp |-> a.exp, val |-> a.val]

Fuel(T) == 2     \* at most one wrap is ever needed: a fresh sweep acts at the first depth that has a leaf

(***************************************************************************)
(* DOO: one global maximisation, one expansion per pull                    *)
(***************************************************************************)
AllLeaves(T) == UNION {LeavesAt(T, h) : h \in 0 .. T.pdepth}
DooUnevaluated(T, f) ==
  LET un == {c \in AllLeaves(T) : N(f, c) = 0} IN
  FirstInLayer(T, {c \in un : \A d \in un : T.dep[c] <= T.dep[d]})        \* first in top-down order: minimal depth, then list order
DooBest(T, f) == ArgMax({c \in AllLeaves(T) : N(f, c) = 1}, LAMBDA c : Bv(f, c))

(***************************************************************************)
(* C07: recommendations                                                    *)
(***************************************************************************)
Evaluated(T, f) == {c \in Cells(T) : N(f, c) >= 1 /\ V(f, c) # NInf}
\* SOO / DOO: an evaluated cell whose reward no evaluated cell exceeds
RecBestEvaluated(T, f) == {c \in Evaluated(T, f) : \A d \in Evaluated(T, f) : V(f, c) >= V(f, d)}
\* StoSOO: a deepest-level cell of maximal recorded mean (0 while unevaluated), compared exactly as sum/count
MeanGeq(f, c, d) ==
  LET nc == IF N(f, c) = 0 THEN 1 ELSE N(f, c)   nd == IF N(f, d) = 0 THEN 1 ELSE N(f, d) IN
  V(f, c) * nd >= V(f, d) * nc
RecStoSOO(T, f) ==
  LET L == SeqRange(T.layers[T.pdepth + 1]) IN {c \in L : \A d \in L : MeanGeq(f, c, d)}
=============================================================================
