------------------------------ MODULE MC_Zoom ------------------------------
(* Exhaustive lattice model of Zooming: every reward sequence, every        *)
(* maximal-index arm, every split dimension / admissible cut, every choice  *)
(* of the child that takes the arm over.  C11's coverage is an invariant.   *)
EXTENDS Zooming, Json, IOUtils
P == JsonDeserialize(IOEnv.MC_PARAMS)
K == Arity(P)
VARIABLES T, arms, z, mode, best, hist
vars == <<T, arms, z, mode, best, hist>>

RootBox == [x \in 1 .. P.D |-> <<0, P.W>>]
Centre(TT, c) == [x \in 1 .. P.D |-> (TT.box[c][x][1] + TT.box[c][x][2]) \div 2]
Dims == IF P.kind = "dbin" THEN {1} ELSE 1 .. P.D
CutSet(pbox, dim) ==
  IF P.kind = "dbin" THEN {c \in [1 .. P.D -> 0 .. P.W] : CutsOK(P, pbox, 1, c)}
  ELSE IF P.kind \in {"bin", "kary"}
  THEN LET lo == pbox[dim][1]  hi == pbox[dim][2]
           c == [j \in 1 .. K + 1 |-> lo + (j - 1) * ((hi - lo) \div K)]
       IN IF CutsOK(P, pbox, dim, c) THEN {c} ELSE {}
  ELSE {c \in [1 .. K + 1 -> pbox[dim][1] .. pbox[dim][2]] : CutsOK(P, pbox, dim, c)}
Splits(TT, p) == UNION {{Mk(P, TT, p, dim, cuts) : cuts \in CutSet(TT.box[p], dim)} : dim \in Dims}

Init == \E T1 \in Splits(RootTree(RootBox), 1) :
          /\ T = T1
          /\ arms = [j \in 1 .. K |-> [pt |-> Centre(T1, 1 + j), cell |-> 1 + j, n |-> 0, sum |-> 0]]
          /\ z = ZInit0 /\ mode = "told" /\ best = 0 /\ hist = <<>>

Pull == /\ mode = "told" /\ Len(hist) < P.R
        /\ best' \in Playable(P, z.phase, arms)
        /\ mode' = "asked" /\ UNCHANGED <<T, arms, z, hist>>

Receive ==
  /\ mode = "asked"
  /\ \E r \in SeqRange(P.rewards) :
       LET a1 == [arms[best] EXCEPT !.n = @ + 1, !.sum = @ + r]
           z1 == Tick(z)
           base == [arms EXCEPT ![best] = a1]
           p == arms[best].cell
           ver == RefineVerdict(P, z1.phase, a1.n, T.dep[p])
       IN /\ z' = z1 /\ hist' = Append(hist, <<best, r>>)
          /\ IF ver = "must" /\ T.n + K <= P.maxcells
             THEN \E T1 \in Splits(T, p) :
                    /\ T' = T1
                    /\ arms' \in AfterRefine(T1, base, best, T1.kids[p], LAMBDA k : Centre(T1, k))
             ELSE T' = T /\ arms' = base
  /\ mode' = "told" /\ UNCHANGED best
ReceiveRefine == Receive /\ T'.n > T.n
ReceiveStay == Receive /\ T'.n = T.n
Next == Pull \/ ReceiveRefine \/ ReceiveStay
Spec == Init /\ [][Next]_vars

InvInside == ArmsInside(T, arms)
InvCovers == Covers(T, arms)                   \* no region ever loses its arm
InvStats  == \A i \in DOMAIN arms :
               LET mine == SelectSeq(hist, LAMBDA x : x[1] = i) IN
               arms[i].n = Len(mine) /\ arms[i].sum = FoldLeft(LAMBDA s, x : s + x[2], 0, mine)
InvStruct == StructOK(P, T) /\ EveryParentTiled(P, T)
=============================================================================
