----------------------------- MODULE TreeBandit -----------------------------
(***************************************************************************)
(* T-HOO, HCT and VHCT (PyXAB/algos/HOO.py, HCT.py, VHCT.py) as functions   *)
(* on a state record, written from the published pseudo-code                *)
(* (docs/.../HCT/HCT.png) and structured like the code: pull = optTraverse, *)
(* receive = [refresh at t = t+] ; credit ; U of the touched cells ;        *)
(* backward pass ; expansion test.                                         *)
(*                                                                         *)
(* Parameter record P                                                      *)
(*   algo    "THOO" | "HCT" | "VHCT"                                        *)
(*   S, RU   fixed-point scale; rewards are integers in units of 1/RU       *)
(*   nurho   nurho[h+1] = round(S nu rho^h)                                 *)
(*   THOO:   w2 = round(S^2 2 ln n), dbound = ceil((ln n/2 - ln(1/nu))/ln(1/rho)) *)
(*   HCT/VHCT: per epoch k (t+ = 2^k, delta~ = min(1, c1 delta / t+)):      *)
(*           c2l[k+1] = round(S^2 c^2 ln(1/delta~)),                        *)
(*           tau[k+1][h+1] = ceil(c^2 ln(1/delta~) rho^(-2h) / nu^2), tau[.][1] = 0 *)
(*   VHCT:   c2ls[k+1] = round(S c^2 ln(1/delta~)), b3[k+1] = round(S 3 b c^2 ln(1/delta~)), *)
(*           vmin = round(S 1e-3)                                          *)
(* These tables are the only transcendental ingredients; harness/consts.py  *)
(* computes them from the published formulas in decimal arithmetic.        *)
(*                                                                         *)
(* State record st                                                         *)
(*   T (PartitionTree value), cnt, sum, sq (sum of squares, units 1/RU^2), *)
(*   U, B (fixed point, PInf for "infinite"), var/tau (VHCT, per cell),    *)
(*   iter (round counter as the code keeps it: 0-based T-HOO, 1-based HCT) *)
(***************************************************************************)
EXTENDS PartitionTree, FP

IsHCT(P) == P.algo \in {"HCT", "VHCT"}

\* t+ = 2^Epoch(it): smallest power of two >= it
Epoch(it) == CHOOSE k \in 0 .. 30 : 2 ^ k >= it /\ (k = 0 \/ 2 ^ (k - 1) < it)
IsRefresh(it) == 2 ^ Epoch(it) = it

MeanFx(P, st, c) == RoundDiv(st.sum[c] * P.S, st.cnt[c] * P.RU)

\* population variance floored at 1e-3 (VHCT), fixed point
VarFx(P, st, c) ==
  LET m  == MeanFx(P, st, c)
      e2 == RoundDiv(st.sq[c] * P.S, st.cnt[c] * P.RU * P.RU)
      v  == e2 - RoundDiv(m * m, P.S)
  IN MaxI(v, P.vmin)

\* the published index of a cell with at least one pull; k = epoch in force
UVal(P, st, c, k) ==
  IF st.cnt[c] = 0 THEN PInf
  ELSE LET h == st.T.dep[c] IN
       CASE P.algo = "THOO" -> MeanFx(P, st, c) + P.nurho[h + 1] + ISqrt(P.w2 \div st.cnt[c])
         [] P.algo = "HCT"  -> MeanFx(P, st, c) + P.nurho[h + 1] + ISqrt(P.c2l[k + 1] \div st.cnt[c])
         [] P.algo = "VHCT" -> MeanFx(P, st, c) + P.nurho[h + 1]
                               + ISqrt((2 * st.var[c] * P.c2ls[k + 1]) \div st.cnt[c])
                               + P.b3[k + 1] \div st.cnt[c]

\* --- VHCT's per-cell threshold  tau = ceil( X * Y ),
\*   X = var + 3 b nu rho^h + sqrt(var^2 + 2 var 3 b nu rho^h)      (fixed point, S units; nb[h+1] = S 3 b nu rho^h)
\*   Y = c^2 ln(1/delta~) rho^(-2h) / nu^2                           (tauy[k+1][h+1] = <<m, e>>, S Y ~ m 2^e, 2^14 <= m < 2^15)
\* evaluated with shifted operands so that nothing leaves 31 bits; result exact to about 2^-13
RECURSIVE ShiftDown(_, _)
ShiftDown(x, e) == IF x < 32768 THEN <<x, e>> ELSE ShiftDown(x \div 2, e + 1)
ISqrtProd(a, b) ==   \* floor-ish sqrt(a*b) for a < 2^14, b < 2^22
  LET sb == ShiftDown(b, 0)            \* b ~ sb[1] * 2^sb[2], sb[1] < 2^15
      ev == IF sb[2] % 2 = 0 THEN sb ELSE <<sb[1] \div 2, sb[2] + 1>>
  IN ISqrt(a * ev[1]) * (2 ^ (ev[2] \div 2))
TauVX(P, st, c) ==
  LET h == st.T.dep[c]  v == st.var[c]  nb == P.nb[h + 1] IN v + nb + ISqrtProd(v, v + 2 * nb)
TauVEst(P, st, c, k) ==
  LET h  == st.T.dep[c]
      X  == TauVX(P, st, c)
      sy == P.tauy[k + 1][h + 1]
      sx == ShiftDown(X, 0)
      m  == sx[1] * sy[1]                       \* X * (S Y) ~ m * 2^(sx[2] + sy[2]),  m < 2^30
      e  == sx[2] + sy[2] - 2 * P.sexp          \* tau = X Y / S ... in units: (X/S) * Y = X * (S Y) / S^2 ~ m * 2^e
  IN IF e >= 0 THEN (IF e >= 20 THEN 1900000000 ELSE IF m >= 1900000000 \div (2 ^ e) THEN 1900000000 ELSE m * (2 ^ e))
     ELSE IF -e >= 31 THEN 1
     ELSE (m + (2 ^ (-e)) - 1) \div (2 ^ (-e))
\* X carries about +-2 units of quantisation (variance code, table entry, square root): relative 2/X on top of 1/64
TauVClose(obs, est, X) ==
  IF est >= 1000000 THEN obs >= 500000
  ELSE AbsI(obs - est) <= 2 + est \div 64 + (2 * est) \div MaxI(X, 1)

\* threshold of a cell in epoch k
TauOf(P, st, c, k) ==
  IF P.algo = "HCT" THEN P.tau[k + 1][st.T.dep[c] + 1] ELSE st.tau[c]

(***************************************************************************)
(* C05: B-law and the optimistic descent                                   *)
(***************************************************************************)
MaxKidB(st, c) ==
  LET ks == st.T.kids[c] IN
  FoldLeft(LAMBDA acc, k : MaxI(acc, st.B[k]), NInf, ks)

BLawAt(st, c) ==
  IF IsLeaf(st.T, c) THEN st.B[c] = st.U[c]
  ELSE st.B[c] = MinI(st.U[c], MaxKidB(st, c))
BLaw(st) == \A c \in Cells(st.T) : BLawAt(st, c)

ArgMaxB(st, ks) == {k \in SeqRange(ks) : \A j \in SeqRange(ks) : st.B[k] >= st.B[j]}

\* does the descent stop at c ?  (T-HOO: at leaves; HCT/VHCT: leaf or count below threshold)
Stops(P, st, c, k) ==
  IsLeaf(st.T, c) \/ (IsHCT(P) /\ st.cnt[c] < (IF c = 1 THEN 0 ELSE TauOf(P, st, c, k)))

\* set of cells an optimistic descent from the root can end in (ties: any maximal child)
RECURSIVE EndsFrom(_, _, _, _)
EndsFrom(P, st, c, k) ==
  IF Stops(P, st, c, k) THEN {c}
  ELSE UNION {EndsFrom(P, st, j, k) : j \in ArgMaxB(st, st.T.kids[c])}
PullEnds(P, st) == EndsFrom(P, st, 1, Epoch(st.iter))

\* VHCT, independent of the thresholds the library reports: the descent under *any* per-cell thresholds that agree with
\* the published formula to the tolerance of TauVClose.  A cell surely stops below the band, surely continues above it.
TauBand(P, st, c, k) ==
  LET est == TauVEst(P, st, c, k)  X == TauVX(P, st, c)
      d == 2 + est \div 64 + (2 * est) \div MaxI(X, 1)
  IN IF est >= 1000000 THEN <<500000, 1900000000>> ELSE <<MaxI(est - d, 0), est + d>>
StopsBand(P, st, c, k) ==      \* subset of {TRUE, FALSE}
  IF IsLeaf(st.T, c) THEN {TRUE}
  ELSE IF c = 1 THEN {FALSE}
  ELSE LET b == TauBand(P, st, c, k) IN
       (IF st.cnt[c] < b[2] THEN {TRUE} ELSE {}) \cup (IF st.cnt[c] >= b[1] THEN {FALSE} ELSE {})
RECURSIVE EndsBandFrom(_, _, _, _)
EndsBandFrom(P, st, c, k) ==
  LET sb == StopsBand(P, st, c, k) IN
  (IF TRUE \in sb THEN {c} ELSE {}) \cup
  (IF FALSE \in sb THEN UNION {EndsBandFrom(P, st, j, k) : j \in ArgMaxB(st, st.T.kids[c])} ELSE {})
PullEndsBand(P, st) == EndsBandFrom(P, st, 1, Epoch(st.iter))

\* the cells on the way from the root to c (root first)
RECURSIVE PathTo(_, _)
PathTo(T, c) == IF c = 1 THEN <<1>> ELSE Append(PathTo(T, T.parent[c]), c)

(***************************************************************************)
(* C04: credit; C06: growth                                                *)
(***************************************************************************)
Credited(P, T, e) == IF P.algo = "THOO" THEN SeqRange(PathTo(T, e)) ELSE {e}

Credit(P, st, e, r) ==
  LET cs == Credited(P, st.T, e) IN
  [st EXCEPT !.cnt = [c \in DOMAIN @ |-> IF c \in cs THEN @[c] + 1 ELSE @[c]],
             !.sum = [c \in DOMAIN @ |-> IF c \in cs THEN @[c] + r ELSE @[c]],
             !.sq  = [c \in DOMAIN @ |-> IF c \in cs THEN @[c] + r * r ELSE @[c]]]

\* the published expansion rule, evaluated after the credit; k = epoch of the pull
Grows(P, st1, e, k) ==
  /\ IsLeaf(st1.T, e)
  /\ IF P.algo = "THOO" THEN st1.T.dep[e] <= P.dbound
     ELSE st1.cnt[e] >= TauOf(P, st1, e, k)

\* the cells whose U the round recomputes
Touched(P, st, e) ==
  IF P.algo = "THOO" THEN Cells(st.T)
  ELSE IF IsRefresh(st.iter) THEN Cells(st.T) ELSE {e}

\* bottom-up pass (children have larger ids than their parents)
Backward(st) ==
  LET n == st.T.n
      step(B, i) == LET c == n + 1 - i IN
                    [B EXCEPT ![c] = IF IsLeaf(st.T, c) THEN st.U[c]
                                     ELSE MinI(st.U[c], FoldLeft(LAMBDA acc, k : MaxI(acc, B[k]), NInf, st.T.kids[c]))]
  IN [st EXCEPT !.B = FoldLeft(step, st.B, [i \in 1 .. n |-> i])]

Extend(st, K) ==   \* evidence of K fresh cells: zero pulls, infinite index
  [st EXCEPT !.cnt = @ \o [j \in 1 .. K |-> 0], !.sum = @ \o [j \in 1 .. K |-> 0], !.sq = @ \o [j \in 1 .. K |-> 0],
             !.U = @ \o [j \in 1 .. K |-> PInf], !.B = @ \o [j \in 1 .. K |-> PInf],
             !.var = @ \o [j \in 1 .. K |-> 0], !.tau = @ \o [j \in 1 .. K |-> 0]]
=============================================================================
