----------------------------- MODULE StroquOOL -----------------------------
(***************************************************************************)
(* StroquOOL (PyXAB/algos/StroquOOL.py) -- the part of its behaviour that   *)
(* C04 and C07 speak about.  The opening schedule (which cell is opened     *)
(* when; it is driven by the time argument) is left unspecified: a pull may *)
(* hand out any cell.  Specified:                                           *)
(*  - credit: each reward goes to exactly the cell handed out by the        *)
(*    preceding pull (count + 1, reward appended), until the algorithm has  *)
(*    ended, after which rewards are ignored for good;                      *)
(*  - BeginValidation: once, at a pull, the reward lists of the final       *)
(*    candidates are restarted (counts kept) -- the documented exception    *)
(*    of C04; nothing else ever shrinks;                                    *)
(*  - recommendation: a candidate of maximal validation mean.              *)
(* Evidence per cell: f[c] = <<cnt, nrew, sum, opened>>.                    *)
(* Control: cand (set of candidates, {} before validation), ended.          *)
(***************************************************************************)
EXTENDS PartitionTree, FP

Cnt(f, c) == f[c][1]
Nrw(f, c) == f[c][2]
Sum(f, c) == f[c][3]

\* cells whose reward list was restarted between f and g
Restarted(f, g) == {c \in DOMAIN f : Nrw(g, c) < Nrw(f, c)}
RestartOK(f, g) == \A c \in Restarted(f, g) : Nrw(g, c) = 0 /\ Sum(g, c) = 0 /\ Cnt(g, c) = Cnt(f, c)

CreditOK(f, g, c, r) == g = [f EXCEPT ![c] = <<f[c][1] + 1, f[c][2] + 1, f[c][3] + r, f[c][4], f[c][5]>>]

\* validation mean as an exact rational; candidates not yet re-evaluated do not compete
MeanGeq(f, c, d) == Sum(f, c) * Nrw(f, d) >= Sum(f, d) * Nrw(f, c)
RecBest(f, cand) ==
  LET E == {c \in cand : Nrw(f, c) > 0} IN {c \in E : \A d \in E : MeanGeq(f, c, d)}

(***************************************************************************)
(* The schedule as PyXAB implements it (a power-of-two variant of the       *)
(* published one, docs/.../StroquOOL.png), for consecutive time labels      *)
(* 1, 2, ...  Not needed by any listed property; it extends the             *)
(* specification to the rest of the algorithm's behaviour.                  *)
(*   root phase : the root's first child hmax times, then its second        *)
(*                child hmax times;                                         *)
(*   opening    : for depth d = 1..hmax, for p = floor(log2(hmax/d)) down   *)
(*                to 0: open the unopened cell of depth d with at least     *)
(*                2^p evaluations and the highest mean (if there is none,   *)
(*                the cell opened last is used again); evaluate its first   *)
(*                child 2^p times, then its second child 2^p times;         *)
(*   validation : for p = 0..pmax the evaluated cell with at least 2^p      *)
(*                evaluations and the highest recorded mean is a candidate; *)
(*                each candidate slot is re-evaluated hmax times.           *)
(* Schedule state z: ph, d, p, m (cell being opened), k (1/2), c (count).   *)
(***************************************************************************)
Log2Floor(x) == IF x < 1 THEN -1 ELSE CHOOSE e \in 0 .. 30 : 2 ^ e <= x /\ x < 2 ^ (e + 1)
PStart(hmax, d) == Log2Floor(hmax \div d)          \* floor(log2(hmax/d)) = floor(log2(floor(hmax/d)))
ZInit == [ph |-> "root", d |-> 0, p |-> 0, m |-> 1, k |-> 1, c |-> 0, slot |-> 0, fresh |-> TRUE]

\* cells that may be opened now: unopened, depth d, at least 2^p evaluations, maximal exact mean
Qualifying(T, f, d, p) == IF d + 1 \in DOMAIN T.layers THEN {c \in SeqRange(T.layers[d + 1]) : f[c][4] = 0 /\ Cnt(f, c) >= 2 ^ p} ELSE {}
MeanGeqAll(f, c, d) == Sum(f, c) * Nrw(f, d) >= Sum(f, d) * Nrw(f, c)
OpenChoices(T, f, d, p) == LET Q == Qualifying(T, f, d, p) IN {c \in Q : \A e \in Q : MeanGeqAll(f, c, e)}

\* after the evaluation that completes kid k of the cell being opened: the next schedule state
AfterKid(hmax, z) ==
  IF z.k = 1 THEN [z EXCEPT !.k = 2, !.c = 0]
  ELSE IF z.ph = "root" THEN [ph |-> "open", d |-> 1, p |-> PStart(hmax, 1), m |-> z.m, k |-> 1, c |-> 0, slot |-> 0, fresh |-> TRUE]
  ELSE LET p1 == z.p - 1 IN
       IF p1 >= 0 THEN [z EXCEPT !.p = p1, !.k = 1, !.c = 0, !.fresh = TRUE]
       ELSE LET d1 == z.d + 1 IN
            IF d1 > hmax THEN [z EXCEPT !.ph = "val", !.d = d1, !.k = 1, !.c = 0, !.slot = 0, !.fresh = TRUE]
            ELSE [z EXCEPT !.d = d1, !.p = PStart(hmax, d1), !.k = 1, !.c = 0, !.fresh = TRUE]
Quota(hmax, z) == IF z.ph = "root" \/ z.ph = "val" THEN hmax ELSE 2 ^ z.p

(***************************************************************************)
(* Generative form of the same schedule (used by MC_Stro).  Here f[c][5] is *)
(* the *recorded* mean of the cell, <<sum, count>> at the moment the cell   *)
(* was last scanned for opening (count = 0: never scanned, i.e. -infinity): *)
(* the candidates of the validation phase are chosen by this recorded       *)
(* value, not by the current one.                                          *)
(***************************************************************************)
RecGeq(a, b) == IF b[2] = 0 THEN TRUE ELSE IF a[2] = 0 THEN FALSE ELSE a[1] * b[2] >= b[1] * a[2]
Scan(T, f, d, p) == LET Q == Qualifying(T, f, d, p) IN
  [c \in DOMAIN f |-> IF c \in Q THEN [f[c] EXCEPT ![5] = <<Sum(f, c), Nrw(f, c)>>] ELSE f[c]]
CandChoices(f, chosen, q) ==
  LET E == {c \in SeqRange(chosen) : Cnt(f, c) >= 2 ^ q} IN {c \in E : \A d \in E : RecGeq(f[c][5], f[d][5])}
RestartAll(f, cs) == [c \in DOMAIN f |-> IF c \in cs THEN [f[c] EXCEPT ![2] = 0, ![3] = 0] ELSE f[c]]
\* evaluations the schedule spends before it ends: root phase + openings + validation
RECURSIVE OpenCost(_, _)
OpenCost(hmax, d) == IF d > hmax THEN 0 ELSE (2 ^ (PStart(hmax, d) + 2) - 2) + OpenCost(hmax, d + 1)
TotalCost(hmax) == 2 * hmax + OpenCost(hmax, 1) + (Log2Floor(hmax) + 1) * hmax
=============================================================================
