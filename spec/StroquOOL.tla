----------------------------- MODULE StroquOOL -----------------------------
(***************************************************************************)
(* StroquOOL (PyXAB/algos/StroquOOL.py) -- the part of its behaviour that   *)
(* C04 and C07 speak about.  The opening schedule (which cell is opened     *)
(* when; it is driven by the time argument) is left unspecified: a pull may *)
(* hand out any cell.  Specified:                                           *)
(*  - credit: each reward goes to exactly the cell handed out by the        *)
(*    preceding pull (count + 1, reward appended), until the algorithm has  *)
(*    ended, after which rewards are ignored for good;                      *)
(*  - BeginValidation: once, at a pull, the reward lists of the final       *)
(*    candidates are restarted (counts kept) -- the documented exception    *)
(*    of C04; nothing else ever shrinks;                                    *)
(*  - recommendation: a candidate of maximal validation mean.              *)
(* Evidence per cell: f[c] = <<cnt, nrew, sum, opened>>.                    *)
(* Control: cand (set of candidates, {} before validation), ended.          *)
(***************************************************************************)
EXTENDS PartitionTree, FP

Cnt(f, c) == f[c][1]
Nrw(f, c) == f[c][2]
Sum(f, c) == f[c][3]

\* cells whose reward list was restarted between f and g
Restarted(f, g) == {c \in DOMAIN f : Nrw(g, c) < Nrw(f, c)}
RestartOK(f, g) == \A c \in Restarted(f, g) : Nrw(g, c) = 0 /\ Sum(g, c) = 0 /\ Cnt(g, c) = Cnt(f, c)

CreditOK(f, g, c, r) == g = [f EXCEPT ![c] = <<f[c][1] + 1, f[c][2] + 1, f[c][3] + r, f[c][4]>>]

\* validation mean as an exact rational; candidates not yet re-evaluated do not compete
MeanGeq(f, c, d) == Sum(f, c) * Nrw(f, d) >= Sum(f, d) * Nrw(f, c)
RecBest(f, cand) ==
  LET E == {c \in cand : Nrw(f, c) > 0} IN {c \in E : \A d \in E : MeanGeq(f, c, d)}
=============================================================================
