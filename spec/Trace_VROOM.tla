---------------------------- MODULE Trace_VROOM ----------------------------
(* Trace validation of VROOM runs against VROOM.tla. *)
EXTENDS VROOM, TraceTree, Json, IOUtils, TLCExt
Traces == JsonDeserialize(IOEnv.TRACE_FILE)
VARIABLES tid, l, T, f, grown, inside, ph, err, done
vars == <<tid, l, T, f, grown, inside, ph, err, done>>
Tr == Traces[tid]
PP == Tr.P
Ev == Tr.ev
ApplyFc(ff, fc) == FoldLeft(LAMBDA acc, x : IF x[1] \in DOMAIN acc THEN [acc EXCEPT ![x[1]] = SubSeq(x, 2, 4)] ELSE acc, ff, fc)
Changed(ff, g) == {c \in DOMAIN ff : ff[c] # g[c]}
Init == /\ tid \in 1 .. Len(Traces) /\ l = 1 /\ ph = "new" /\ err = "ok" /\ done = FALSE
        /\ T = [n |-> 0] /\ f = <<>> /\ grown = {} /\ inside = {}
CallFail(e) == IF Has(e, "hang") THEN "call.hangs" ELSE IF Has(e, "exc") THEN "call.raises"
               ELSE IF e.k \in {"pull", "glp"} /\ e.ptok # 1 THEN "call.not-a-point"
               ELSE IF ~NoStructChange(e) \/ e.pd # T.pdepth THEN "call.struct-change" ELSE "ok"

InitStep(e) ==
  LET T0 == TreeOfInit(e)  c0 == InitCheck(PP, e) IN
  IF c0 # "ok" THEN c0
  ELSE IF ~(T0.pdepth = PP.sd /\ \A h \in 0 .. PP.sd : Len(T0.layers[h + 1]) = 2 ^ h) THEN "vroom.init-shape"     \* complete tree of the ranking depth
  ELSE IF ~(\A c \in 1 .. T0.n : e.f[c][1] = 0 /\ e.f[c][2] = 0) THEN "vroom.init-not-fresh" ELSE "ok"

PullStep(e) ==
  LET f1 == ApplyFc(f, e.fc) IN
  IF ~(\A c \in DOMAIN f : f1[c][1] = f[c][1] /\ f1[c][2] = f[c][2]) THEN "stats.pull-mutates"
  ELSE IF ~(\A h \in 1 .. PP.sd : RankPermutation(T, f1, h)) THEN "vroom.rank-permutation"
  ELSE IF ~(\A h \in 1 .. PP.sd : RankSorted(PP, T, f1, h)) THEN "vroom.rank-order"
  ELSE IF ~ProbLaw(PP, T, f1, e.prob) THEN "vroom.prob"
  ELSE "ok"

RecvStep(e) ==
  LET f1 == ApplyFc(f, e.fc)
      cs == Changed(f, f1) IN
  IF ~IsChain(PP, T, cs) THEN "vroom.credit-not-a-path"
  ELSE IF ~(\A c \in cs : f1[c] = <<f[c][1] + 1, f[c][2] + e.r, f[c][3]>>) THEN "credit.reward"
  ELSE IF ~(grown \subseteq cs) THEN "vroom.expanded-off-path"
  ELSE IF ~(cs \subseteq inside) THEN "vroom.point-outside-cell"         \* the point lies in the drawn cell and in every cell of the path
  ELSE "ok"

Step ==
  /\ ~done /\ err = "ok" /\ l <= Len(Ev)
  /\ LET e == Ev[l] IN
     CASE e.k = "init" ->
            /\ T' = TreeOfInit(e) /\ f' = [c \in DOMAIN e.f |-> SubSeq(e.f[c], 1, 3)] /\ err' = InitStep(e) /\ ph' = "told" /\ UNCHANGED <<grown, inside>>
       [] e.k = "mk" ->
            LET c0 == MkCheckEv(PP, T, e, LAMBDA d : f[d][1] > 0) IN
            /\ err' = IF c0 # "ok" THEN c0 ELSE IF T.dep[e.p] < PP.sd THEN "vroom.expanded-above-ranking-depth" ELSE "ok"
            /\ T' = IF c0 = "ok" THEN MkApply(PP, T, e) ELSE T
            /\ f' = IF c0 = "ok" THEN f \o [j \in DOMAIN e.nf |-> SubSeq(e.nf[j], 2, 4)] ELSE f
            /\ grown' = grown \cup {e.p} /\ UNCHANGED <<inside, ph>>
       [] e.k = "pull" ->
            LET c0 == CallFail(e) IN
            IF ph # "told" THEN err' = "protocol" /\ UNCHANGED <<T, f, grown, inside, ph>>
            ELSE /\ err' = (IF c0 # "ok" THEN c0 ELSE PullStep(e))
                 /\ f' = ApplyFc(f, e.fc) /\ inside' = SeqRange(e.inside) /\ ph' = "asked" /\ UNCHANGED <<T, grown>>
       [] e.k = "recv" ->
            LET c0 == CallFail(e) IN
            IF ph # "asked" THEN err' = "protocol" /\ UNCHANGED <<T, f, grown, inside, ph>>
            ELSE /\ err' = (IF c0 # "ok" THEN c0 ELSE RecvStep(e))
                 /\ f' = ApplyFc(f, e.fc) /\ ph' = "told" /\ grown' = {} /\ UNCHANGED <<T, inside>>
       [] e.k = "glp" ->
            \* VROOM's recommendation descends the tree and may expand it; only totality is required here
            /\ err' = (LET c0 == CallFail(e) IN IF c0 = "call.struct-change" THEN "ok" ELSE c0)
            /\ grown' = {} /\ UNCHANGED <<T, f, inside, ph>>
       [] e.k = "end" -> /\ err' = (IF ~StructOK(PP, T) THEN "final.struct" ELSE "ok") /\ UNCHANGED <<T, f, grown, inside, ph>>
       [] OTHER -> err' = "unknown-event" /\ UNCHANGED <<T, f, grown, inside, ph>>
  /\ l' = l + 1 /\ UNCHANGED <<tid, done>>
Finish ==
  /\ ~done /\ (err # "ok" \/ l > Len(Ev))
  /\ PrintT(<<"VERDICT", Tr.id, err, l - 1, IF T.n > 0 THEN T.n ELSE 0>>)
  /\ done' = TRUE /\ UNCHANGED <<tid, l, T, f, grown, inside, ph, err>>
Next == Step \/ Finish
Spec == Init /\ [][Next]_vars
=============================================================================
