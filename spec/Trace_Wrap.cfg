SPECIFICATION Spec
INVARIANT InvGpo
INVARIANT InvPoo
CHECK_DEADLOCK FALSE
