-------------------------------- MODULE GPO --------------------------------
(***************************************************************************)
(* GPO / PCT / VPCT: the published schedule (docs/.../GPO/GPO.png).         *)
(*                                                                         *)
(*   N = ceil(0.5 Dmax ln((n/2)/ln(n/2))) base learners, learner i with    *)
(*   (nu_max, rho_max^(2N/(2i+1))); each is run for half = floor(n/(2N))   *)
(*   rounds, then its last proposed point is evaluated half times and      *)
(*   scored by the mean of exactly those rewards; afterwards pull and      *)
(*   get_last_point return a validated point with the highest score.       *)
(*                                                                         *)
(* Base learners are abstract ask/tell objects here (TreeBandit.tla        *)
(* describes them); a point is identified by <<learner, pull number>>.     *)
(* The state is one record G, the actions are functions on it, so the      *)
(* same operators serve model checking (MC_GPO) and trace validation       *)
(* (Trace_Wrap).  N >= 1 and half >= 1 are assumed (half = 0 leaves "its   *)
(* last proposed point" undefined; that input class is a C01 finding).     *)
(***************************************************************************)
EXTENDS Naturals, Integers, Sequences, FiniteSets, SequencesExt, TLC

GInit == [phase |-> 1, counter |-> 0, made |-> 0,
          lp |-> <<>>,        \* lp[i]  = number of pulls served by learner i
          lr |-> <<>>,        \* lr[i]  = sequence of rewards delivered to learner i
          lown |-> <<>>,      \* lown[i] = TRUE while every reward delivered to i answered a point i proposed
          vx |-> <<>>,        \* vx[i]  = the validated point of phase i (<<i, pull number>>)
          vr |-> <<>>,        \* vr[i]  = sequence of validation rewards of phase i
          good |-> <<0, 0>>,  \* last point proposed by the current learner
          asked |-> <<0, 0>>] \* point handed out by the last pull

Finished(N, G) == G.phase > N

\* score of phase i as an exact rational <<sum, count>>
Sum(s) == FoldLeft(LAMBDA a, b : a + b, 0, s)
Score(G, i) == <<Sum(G.vr[i]), Len(G.vr[i])>>
\* a/b >= c/d for b, d > 0
RatGeq(x, y) == x[1] * y[2] >= y[1] * x[2]
Best(G) == {i \in DOMAIN G.vx : Len(G.vr[i]) > 0 /\ \A j \in DOMAIN G.vx : Len(G.vr[j]) > 0 => RatGeq(Score(G, i), Score(G, j))}

(***************************************************************************)
(* pull: returns <<G', sub-events, set of admissible returned points>>      *)
(* sub-events are what the base-learner class observes during the call      *)
(***************************************************************************)
Pull(N, half, G) ==
  IF Finished(N, G)
  THEN [G |-> G, sub |-> <<>>, ret |-> {G.vx[i] : i \in Best(G)}]
  ELSE LET i  == G.phase
           G1 == IF G.counter = 0
                 THEN [G EXCEPT !.made = @ + 1, !.lp = Append(@, 0), !.lr = Append(@, <<>>), !.lown = Append(@, TRUE)]
                 ELSE G
           new == IF G.counter = 0 THEN << <<"new", i>> >> ELSE <<>>
       IN IF G.counter < half
          THEN LET pt == <<i, G1.lp[i] + 1>> IN
               [G |-> [G1 EXCEPT !.lp[i] = @ + 1, !.good = pt, !.asked = pt],
                sub |-> new \o << <<"pull", i>> >>, ret |-> {pt}]
          ELSE LET G2 == IF G.counter = half
                         THEN [G1 EXCEPT !.vx = Append(@, G1.good), !.vr = Append(@, <<>>)] ELSE G1
               IN [G |-> [G2 EXCEPT !.asked = G2.good], sub |-> new, ret |-> {G2.good}]

Receive(N, half, G, r) ==
  IF Finished(N, G) THEN [G |-> G, sub |-> <<>>]
  ELSE LET i  == G.phase
           G1 == IF G.counter < half
                 THEN [G EXCEPT !.lr[i] = Append(@, r), !.lown[i] = @ /\ G.asked[1] = i]
                 ELSE [G EXCEPT !.vr[i] = Append(@, r)]
           c  == G.counter + 1
           G2 == IF c >= 2 * half THEN [G1 EXCEPT !.phase = @ + 1, !.counter = 0] ELSE [G1 EXCEPT !.counter = c]
       IN [G |-> G2, sub |-> IF G.counter < half THEN << <<"recv", i, r>> >> ELSE <<>>]

\* get_last_point: specified once all phases are over
GLPRet(N, G) == IF Finished(N, G) THEN {G.vx[i] : i \in Best(G)} ELSE {}

(***************************************************************************)
(* C09 as invariants of G                                                  *)
(***************************************************************************)
LearnersOK(N, half, G) ==
  /\ G.made = Len(G.lp) /\ G.made <= N
  /\ G.made = (IF Finished(N, G) THEN N ELSE IF G.counter = 0 /\ Len(G.lp) < G.phase THEN G.phase - 1 ELSE G.phase)
  /\ \A i \in DOMAIN G.lp :
        /\ G.lown[i]                                                     \* only rewards of its own points
        /\ i < G.phase => (G.lp[i] = half /\ Len(G.lr[i]) = half)        \* exactly half rounds each
        /\ G.lp[i] <= half /\ Len(G.lr[i]) <= G.lp[i]
ValidationOK(N, half, G) ==
  /\ Len(G.vx) = Len(G.vr)
  /\ \A i \in DOMAIN G.vx :
        /\ G.vx[i] = <<i, half>>                                         \* the learner's last proposed point
        /\ Len(G.vr[i]) <= half
        /\ i < G.phase => Len(G.vr[i]) = half                            \* evaluated exactly half times
BudgetOK(N, half, G, rounds) == rounds >= 2 * half * N => Finished(N, G)
=============================================================================
