----------------------------- MODULE Trace_Pair -----------------------------
(***************************************************************************)
(* Lock-step comparison of two recorded sessions (C14 reproducibility and   *)
(* isolation, C15 time labels / recommendation queries, C16 affine maps).   *)
(* Two runs of one deterministic state machine on the same inputs are the   *)
(* same behaviour: every event of A must equal the corresponding event of   *)
(* B on the projection named by the pair's mode:                            *)
(*   "exact"  all rank-coded coordinates, cells, structure                  *)
(*   "approx" cells and structure; positions (2^-30 of the box) within tol  *)
(* Fields listed in `ignore` (time labels) are not compared; events of kind *)
(* "glp" are dropped first when dropq = 1 (inserted recommendation queries).*)
(***************************************************************************)
EXTENDS Naturals, Integers, Sequences, FiniteSets, SequencesExt, TLC, Json, IOUtils, TLCExt

Pairs == JsonDeserialize(IOEnv.TRACE_FILE)
VARIABLES pid, l, err, done, rk
vars == <<pid, l, err, done, rk>>
Pr == Pairs[pid]
Has0(e) == "final" \in DOMAIN e            \* the closing recommendation is marked final and always compared
Keep(ev) == IF Pr.dropq = 1 THEN SelectSeq(ev, LAMBDA e : e.k # "glp" \/ Has0(e)) ELSE ev
A == Keep(Pr.a)
B == Keep(Pr.b)
Has(e, x) == x \in DOMAIN e
Abs(x) == IF x < 0 THEN -x ELSE x
Near(u, v, tol) == u <= v + tol /\ v <= u + tol      \* no subtraction: positions may be clamped sentinels
Fld(e, x, dflt) == IF Has(e, x) THEN e[x] ELSE dflt

CellsEq(x, y, exact) ==
  /\ Len(x) = Len(y)
  /\ \A j \in DOMAIN x :
       /\ x[j].id = y[j].id /\ x[j].par = y[j].par /\ x[j].dep = y[j].dep /\ x[j].idx = y[j].idx
       /\ exact => (x[j].box = y[j].box /\ x[j].cpt = y[j].cpt)

\* Rank codes are computed over all coordinates of a trace, so a divergence late in a run shifts the codes of its
\* first events too.  To name the place where two runs part, everything that is not rank-coded is compared first
\* (CmpS, stops the walk); rank-coded fields are compared on the side (CmpR) and decide only if nothing else differs.
CmpS(x, y) ==
  LET exact == Pr.mode = "exact" IN
  IF x.k # y.k THEN "pair.kind"
  ELSE IF Has(x, "exc") # Has(y, "exc") \/ Has(x, "hang") # Has(y, "hang") THEN "pair.failure-differs"
  ELSE IF Fld(x, "p", 0) # Fld(y, "p", 0) \/ Fld(x, "kc", <<>>) # Fld(y, "kc", <<>>) \/ Fld(x, "lc", <<>>) # Fld(y, "lc", <<>>)
          \/ Fld(x, "pd", 0) # Fld(y, "pd", 0) THEN "pair.structure"
  ELSE IF ~CellsEq(Fld(x, "new", <<>>), Fld(y, "new", <<>>), FALSE) THEN "pair.new-cells"
  ELSE IF x.k = "init" /\ ~(CellsEq(x.cells, y.cells, FALSE) /\ x.kids = y.kids /\ x.layers = y.layers) THEN "pair.initial-tree"
  ELSE IF Fld(x, "ptok", 1) # Fld(y, "ptok", 1) THEN "pair.point"
  \* candidate cells are found by float equality of representatives, which an inexact map need not preserve
  \* (a K-odd parent and its middle child share a centre only up to rounding): compared under exact maps only
  ELSE IF exact /\ Has(x, "cands") /\ x.cands # y.cands THEN "pair.cell"
  ELSE IF Has(x, "sub") /\ x.sub # y.sub THEN "pair.learners"
  ELSE IF Has(x, "rel") /\ ~(\A j \in DOMAIN x.rel : Near(x.rel[j], y.rel[j], IF exact THEN 0 ELSE Pr.tol)) THEN "pair.position"
  ELSE IF Has(x, "r") /\ x.r # y.r THEN "pair.harness-rewards-differ"
  ELSE "ok"
CmpR(x, y) ==
  IF Pr.mode # "exact" THEN "ok"
  ELSE IF ~CellsEq(Fld(x, "new", <<>>), Fld(y, "new", <<>>), TRUE) THEN "pair.new-cells"
  ELSE IF x.k = "init" /\ ~CellsEq(x.cells, y.cells, TRUE) THEN "pair.initial-tree"
  \* rank codes are comparable only when both traces contain the same set of coordinates; a run with extra
  \* recommendation queries may contain more (wrappers record no tree), so there positions are compared instead
  ELSE IF Has(x, "pt") /\ Pr.dropq = 0 /\ x.pt # y.pt THEN "pair.point"
  ELSE "ok"

Init == pid \in 1 .. Len(Pairs) /\ l = 1 /\ err = "ok" /\ done = FALSE /\ rk = <<"ok", 0>>
Step == /\ ~done /\ err = "ok" /\ l <= Len(A)
        /\ err' = IF l > Len(B) THEN "pair.length" ELSE CmpS(A[l], B[l])
        /\ rk' = IF rk[1] = "ok" /\ l <= Len(B) /\ A[l].k = B[l].k
                 THEN (LET c == CmpR(A[l], B[l]) IN IF c # "ok" THEN <<c, l>> ELSE rk) ELSE rk
        /\ l' = l + 1 /\ UNCHANGED <<pid, done>>
Finish == /\ ~done /\ (err # "ok" \/ l > Len(A))
          /\ LET v == IF err # "ok" THEN <<err, l - 1>> ELSE IF Len(A) # Len(B) THEN <<"pair.length", l - 1>> ELSE IF rk[1] # "ok" THEN rk ELSE <<"ok", l - 1>>
             IN PrintT(<<"VERDICT", Pr.id, v[1], v[2], 0>>)
          /\ done' = TRUE /\ UNCHANGED <<pid, l, err, rk>>
Next == Step \/ Finish
Spec == Init /\ [][Next]_vars
=============================================================================
