------------------------------- MODULE VROOM -------------------------------
(***************************************************************************)
(* VROOM (PyXAB/algos/VROOM.py, docs/.../VROOM/VROOM.png), C13.             *)
(*                                                                         *)
(* The tree is pre-deepened to the ranking depth sd = floor(log2 n).  At    *)
(* every pull the cells of each depth h in 1..sd are ranked by their lower  *)
(* confidence value mean - sqrt(ln(4 n^3/delta)/(2T)) (-inf when T = 0), a  *)
(* cell of depth h and rank r is drawn with probability 1/(h r C), the      *)
(* point is drawn from a descendant of the drawn cell (down to the depth    *)
(* cap) and the reward is credited to the drawn cell and the descendants    *)
(* on that path.                                                           *)
(* Evidence per cell: f[c] = <<nrew, sum, rank>>; P: sd, hcap, S, RU,       *)
(* w2 = round(S^2 ln(4n^3/delta)/2), invC = round(2^20 / C), band           *)
(***************************************************************************)
EXTENDS PartitionTree, FP

Nr(f, c) == f[c][1]
Sm(f, c) == f[c][2]
Rk(f, c) == f[c][3]
LCB(P, f, c) == IF Nr(f, c) = 0 THEN NInf
                ELSE RoundDiv(Sm(f, c) * P.S, Nr(f, c) * P.RU) - ISqrt(P.w2 \div Nr(f, c))
Layer(T, h) == SeqRange(T.layers[h + 1])

\* ranks of depth h: a permutation of 1..|layer| ...
RankPermutation(T, f, h) ==
  LET L == Layer(T, h) IN {Rk(f, c) : c \in L} = 1 .. Cardinality(L)
\* ... that is non-increasing in the lower confidence value (up to the fixed-point band)
RankSorted(P, T, f, h) ==
  \A c, d \in Layer(T, h) : Rk(f, c) < Rk(f, d) => LCB(P, f, c) >= LCB(P, f, d) - P.band

\* probabilities (units 2^-20), listed depth by depth in layer order
ProbIndex(T, sd) == FoldLeft(LAMBDA acc, h : acc \o T.layers[h + 1], <<>>, [h \in 1 .. sd |-> h])
ProbLaw(P, T, f, prob) ==
  LET cells == ProbIndex(T, P.sd) IN
  /\ Len(prob) = Len(cells)
  /\ \A i \in DOMAIN cells :
        LET c == cells[i]  hr == T.dep[c] * Rk(f, c) IN AbsI(prob[i] * hr - P.invC) <= hr
  /\ AbsI(FoldLeft(LAMBDA a, b : a + b, 0, prob) - 1048576) <= Len(cells)

\* the credited cells form a descending path that starts at a ranked cell and ends at the depth cap
RECURSIVE ChainFrom(_, _, _)
ChainFrom(T, cs, c) ==   \* follow the unique child of c inside cs
  LET nxt == SeqRange(T.kids[c]) \cap cs IN
  IF nxt = {} THEN <<c>> ELSE IF Cardinality(nxt) > 1 THEN <<0>> ELSE <<c>> \o ChainFrom(T, cs, CHOOSE k \in nxt : TRUE)
IsChain(P, T, cs) ==
  /\ cs # {}
  /\ LET top == CHOOSE c \in cs : \A d \in cs : T.dep[c] <= T.dep[d]
         ch  == ChainFrom(T, cs, top)
     IN /\ SeqRange(ch) = cs /\ Len(ch) = Cardinality(cs)
        /\ T.dep[top] \in 1 .. P.sd                                   \* the drawn cell is a ranked cell
        /\ T.dep[ch[Len(ch)]] = MaxI(T.dep[top], P.hcap)              \* descent down to the depth cap
ChainTop(T, cs) == CHOOSE c \in cs : \A d \in cs : T.dep[c] <= T.dep[d]
ChainBottom(T, cs) == CHOOSE c \in cs : \A d \in cs : T.dep[c] >= T.dep[d]
=============================================================================
