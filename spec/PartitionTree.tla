--------------------------- MODULE PartitionTree ---------------------------
(***************************************************************************)
(* Functional core of PyXAB's partition layer (PyXAB/partition/*.py).       *)
(*                                                                         *)
(* A tree value T is a record                                              *)
(*   n      number of cells; cells are 1..n in creation order, root = 1     *)
(*   parent sequence, parent[1] = 0                                        *)
(*   kids   sequence of child-id sequences, <<>> for a leaf                *)
(*   dep    depth label of each cell                                       *)
(*   idx    index label of each cell, written as the base-Arity digits of  *)
(*          (index-1), most significant first, one digit per level, so     *)
(*          that the documented law  child j of cell i has index           *)
(*          K(i-1)+j  reads  idx[kid_j] = idx[p] \o <<j-1>>  without ever   *)
(*          leaving 32-bit integers                                        *)
(*   layers layers[h+1] = the per-depth list the partition object keeps     *)
(*          for depth h (Partition.node_list)                              *)
(*   pdepth Partition.depth                                                *)
(*   box    box[c][x] = <<lo, hi>> of cell c in dimension x.  Coordinates  *)
(*          are integers: lattice points in the exhaustive models, dense   *)
(*          ranks of the actual floats in traces of the implementation     *)
(*          (a strictly monotone coding, so every order/equality statement *)
(*          below is decided exactly for the floats).                      *)
(*                                                                         *)
(* P is the parameter record [kind, K, D, metric]:                         *)
(*   kind   "bin" | "rbin" | "dbin" | "kary" | "rkary"                      *)
(*   metric "lattice" (coordinates are exact numbers: midpoint / equal     *)
(*          width laws are arithmetic) | "rank" (order only)               *)
(***************************************************************************)
EXTENDS Naturals, Integers, Sequences, FiniteSets, SequencesExt, FiniteSetsExt, Functions, TLC

Arity(P) == CASE P.kind \in {"bin", "rbin"} -> 2
              [] P.kind = "dbin"            -> 2 ^ P.D
              [] OTHER                      -> P.K

RootTree(rootbox) ==
  [n |-> 1, parent |-> <<0>>, kids |-> << <<>> >>, dep |-> <<0>>, idx |-> << <<>> >>,
   layers |-> << <<1>> >>, pdepth |-> 0, box |-> <<rootbox>>]

Cells(T)     == 1 .. T.n
IsLeaf(T, c) == T.kids[c] = <<>>
Leaves(T)    == {c \in Cells(T) : IsLeaf(T, c)}
SeqRange(s)  == {s[i] : i \in DOMAIN s}

(***************************************************************************)
(* Geometry                                                                *)
(***************************************************************************)
BoxInside(b, outer) == \A x \in DOMAIN b : outer[x][1] <= b[x][1] /\ b[x][1] <= b[x][2] /\ b[x][2] <= outer[x][2]
PointInside(pt, b)  == \A x \in DOMAIN b : b[x][1] <= pt[x] /\ pt[x] <= b[x][2]

\* child boxes for a split of pbox.  Non-dbin kinds: cuts = <<c_1 .. c_{K+1}>> along
\* dimension dim.  dbin: cuts = <<m_1 .. m_D>>, bit x of (j-1) selects the half.
ChildBoxes(P, pbox, dim, cuts) ==
  IF P.kind = "dbin"
  THEN [j \in 1 .. Arity(P) |->
          [x \in 1 .. P.D |->
             IF ((j - 1) \div (2 ^ (x - 1))) % 2 = 0
             THEN <<pbox[x][1], cuts[x]>> ELSE <<cuts[x], pbox[x][2]>>]]
  ELSE [j \in 1 .. Arity(P) |->
          [x \in 1 .. P.D |-> IF x = dim THEN <<cuts[j], cuts[j + 1]>> ELSE pbox[x]]]

\* which cut vectors a partition class may produce (this is the class's split law)
CutsOK(P, pbox, dim, cuts) ==
  IF P.kind = "dbin"
  THEN /\ Len(cuts) = P.D
       /\ \A x \in 1 .. P.D :
            /\ pbox[x][1] <= cuts[x] /\ cuts[x] <= pbox[x][2]
            /\ P.metric = "lattice" => 2 * cuts[x] = pbox[x][1] + pbox[x][2]
  ELSE LET K == Arity(P) lo == pbox[dim][1] hi == pbox[dim][2] IN
       /\ dim \in 1 .. P.D
       /\ Len(cuts) = K + 1
       /\ cuts[1] = lo /\ cuts[K + 1] = hi
       /\ \A j \in 1 .. K : cuts[j] <= cuts[j + 1]
       /\ (P.metric = "lattice" /\ P.kind \in {"bin", "kary"}) =>
              \A j \in 1 .. K : K * (cuts[j + 1] - cuts[j]) = hi - lo

\* C02, order part: the children tile the parent (holds in any total order, hence for
\* the real floats whenever it holds for their ranks)
TilesAlong(pb, kb, dim) ==
  LET K == Len(kb) IN
  /\ \A j \in 1 .. K : \A x \in DOMAIN pb : x # dim => kb[j][x] = pb[x]
  /\ kb[1][dim][1] = pb[dim][1]
  /\ kb[K][dim][2] = pb[dim][2]
  /\ \A j \in 1 .. K - 1 : kb[j][dim][2] = kb[j + 1][dim][1]      \* one shared boundary value
  /\ \A j \in 1 .. K : kb[j][dim][1] <= kb[j][dim][2]

TilesProduct(pb, kb) ==
  \* the children are the orthants around one point m, each orthant exactly once.  Stated on multisets:
  \* when a side has zero width (cells at the resolution of the floats) several orthants are the same box.
  \E m \in [DOMAIN pb -> UNION {{pb[x][1], pb[x][2]} \cup {kb[j][x][1] : j \in DOMAIN kb} \cup {kb[j][x][2] : j \in DOMAIN kb} : x \in DOMAIN pb}] :
     /\ \A x \in DOMAIN pb : pb[x][1] <= m[x] /\ m[x] <= pb[x][2]
     /\ LET pats == [DOMAIN pb -> {0, 1}]
            boxOf(pt) == [x \in DOMAIN pb |-> IF pt[x] = 0 THEN <<pb[x][1], m[x]>> ELSE <<m[x], pb[x][2]>>]
            want == {boxOf(pt) : pt \in pats}
        IN  /\ \A j \in DOMAIN kb : kb[j] \in want
            /\ \A b \in want : Cardinality({j \in DOMAIN kb : kb[j] = b}) = Cardinality({pt \in pats : boxOf(pt) = b})

Tiling(P, pb, kb) ==
  /\ Len(kb) = Arity(P)
  /\ \A j \in DOMAIN kb : DOMAIN kb[j] = DOMAIN pb
  /\ IF P.kind = "dbin" THEN TilesProduct(pb, kb)
                        ELSE \E dim \in DOMAIN pb : TilesAlong(pb, kb, dim)

\* lattice models only: pointwise statement of "union is exactly the parent, interiors
\* pairwise disjoint" over unit cells
UnitCells(b) == {u \in [DOMAIN b -> Int] : \A x \in DOMAIN b : u[x] \in b[x][1] .. (b[x][2] - 1)}
UnitCellsOver(b, lo, hi) == {u \in [DOMAIN b -> lo .. hi] : \A x \in DOMAIN b : b[x][1] <= u[x] /\ u[x] < b[x][2]}

(***************************************************************************)
(* make_children(parent, newlayer)                                         *)
(***************************************************************************)
\* the flag every caller is documented to pass (C03: newlayer = leaf is at the deepest level)
NewLayerFlag(T, p) == T.dep[p] >= T.pdepth

MkGuard(T, p) == p \in Cells(T) /\ IsLeaf(T, p)

NewIds(P, T) == [j \in 1 .. Arity(P) |-> T.n + j]

\* the structural effect of a split, given the child boxes
MkB(P, T, p, kb) ==
  LET K   == Arity(P)
      ids == NewIds(P, T)
      h   == T.dep[p] + 1
      nl  == NewLayerFlag(T, p)
  IN [n      |-> T.n + K,
      parent |-> T.parent \o [j \in 1 .. K |-> p],
      kids   |-> [T.kids EXCEPT ![p] = ids] \o [j \in 1 .. K |-> <<>>],
      dep    |-> T.dep \o [j \in 1 .. K |-> h],
      idx    |-> T.idx \o [j \in 1 .. K |-> Append(T.idx[p], j - 1)],
      layers |-> IF nl THEN Append(T.layers, ids)
                       ELSE [T.layers EXCEPT ![h + 1] = @ \o ids],
      pdepth |-> IF nl THEN T.pdepth + 1 ELSE T.pdepth,
      box    |-> T.box \o kb]

Mk(P, T, p, dim, cuts) == MkB(P, T, p, ChildBoxes(P, T.box[p], dim, cuts))

\* Partition.deepen(): split every cell of the deepest layer, in list order
RECURSIVE DeepenFrom(_, _, _, _, _)
DeepenFrom(P, T, todo, dims, cutss) ==
  IF todo = <<>> THEN T
  ELSE DeepenFrom(P, Mk(P, T, Head(todo), Head(dims), Head(cutss)), Tail(todo), Tail(dims), Tail(cutss))

(***************************************************************************)
(* Invariants of a tree value                                              *)
(***************************************************************************)
\* C03: tree and per-depth index mutually consistent
ParentChildMutual(T) ==
  /\ T.parent[1] = 0
  /\ \A c \in Cells(T) : \A j \in DOMAIN T.kids[c] : T.kids[c][j] \in Cells(T) /\ T.parent[T.kids[c][j]] = c
  /\ \A c \in Cells(T) \ {1} : T.parent[c] \in Cells(T) /\ c \in SeqRange(T.kids[T.parent[c]])

NoSharedChildren(T) ==   \* no child list contains a cell created by splitting another cell
  \A c, d \in Cells(T) : c # d => SeqRange(T.kids[c]) \cap SeqRange(T.kids[d]) = {}

RECURSIVE ReachFrom(_, _)
ReachFrom(T, front) ==
  LET next == UNION {SeqRange(T.kids[c]) : c \in front} IN
  IF next = {} THEN front ELSE front \cup ReachFrom(T, next)
Reachable(T) == ReachFrom(T, {1})

LayersExact(T) ==
  LET R == Reachable(T) IN
  /\ Len(T.layers) = T.pdepth + 1
  /\ \A h \in 0 .. T.pdepth :
       /\ T.layers[h + 1] # <<>>                                      \* reported depth = deepest non-empty level
       /\ Cardinality(SeqRange(T.layers[h + 1])) = Len(T.layers[h + 1])   \* each cell once
       /\ SeqRange(T.layers[h + 1]) = {c \in R : T.dep[c] = h}
  /\ \A c \in R : T.dep[c] <= T.pdepth

LabelsOK(P, T) ==
  /\ T.dep[1] = 0 /\ T.idx[1] = <<>>
  /\ \A c \in Cells(T) : ~IsLeaf(T, c) =>
        /\ Len(T.kids[c]) = Arity(P)
        /\ \A j \in DOMAIN T.kids[c] :
             /\ T.dep[T.kids[c][j]] = T.dep[c] + 1
             /\ T.idx[T.kids[c][j]] = Append(T.idx[c], j - 1)          \* K(i-1)+j, in child-list order
  /\ \A h \in 0 .. T.pdepth :                                        \* (depth, index) labels unique within a depth
        LET L == {c \in Cells(T) : T.dep[c] = h} IN Cardinality({T.idx[c] : c \in L}) = Cardinality(L)

\* cheap form of NoSharedChildren: with ParentChildMutual (every listed child points back to the
\* lister) a cell in two child lists would have two parents, so only repetition inside one list is left
NoRepeatedChild(T) == \A c \in Cells(T) : Cardinality(SeqRange(T.kids[c])) = Len(T.kids[c])

StructOK(P, T) ==
  /\ ParentChildMutual(T)
  /\ NoRepeatedChild(T)                \* with the line above: NoSharedChildren(T)
  /\ Reachable(T) = Cells(T)           \* nothing is ever orphaned
  /\ LayersExact(T)
  /\ LabelsOK(P, T)

\* C02 on a whole tree
EveryParentTiled(P, T) ==
  \A c \in Cells(T) : ~IsLeaf(T, c) => Tiling(P, T.box[c], [j \in DOMAIN T.kids[c] |-> T.box[T.kids[c][j]]])

AllInsideRoot(T) == \A c \in Cells(T) : BoxInside(T.box[c], T.box[1])

\* lattice: every unit cell of the domain lies in exactly one leaf
LeavesTileLattice(T, lo, hi) ==
  \A u \in UnitCellsOver(T.box[1], lo, hi) :
     Cardinality({c \in Leaves(T) : \A x \in DOMAIN u : T.box[c][x][1] <= u[x] /\ u[x] < T.box[c][x][2]}) = 1

\* lattice: equal-size kinds
EqualWidthsLattice(P, T) ==
  P.kind \in {"bin", "dbin", "kary"} =>
    \A c \in Cells(T) \ {1} :
      LET p == T.parent[c] IN
      \A x \in 1 .. P.D :
        LET w == T.box[c][x][2] - T.box[c][x][1]  pw == T.box[p][x][2] - T.box[p][x][1] IN
        IF P.kind = "dbin" THEN 2 * w = pw
        ELSE w = pw \/ Arity(P) * w = pw
=============================================================================
