------------------------------ MODULE MC_VROOM ------------------------------
(***************************************************************************)
(* Exhaustive model of VROOM on a complete binary tree of ranking depth sd:  *)
(* every reward sequence over P.rewards up to P.R rounds, every admissible   *)
(* ranking (ties), every drawn cell (each has positive probability), every   *)
(* random descent to the depth cap.  Emits behaviours for replay with a      *)
(* scripted NumPy generator.                                                *)
(***************************************************************************)
EXTENDS VROOM, Json, IOUtils
P == JsonDeserialize(IOEnv.MC_PARAMS)
VARIABLES T, f, mode, chain, hist
vars == <<T, f, mode, chain, hist>>
NoBox == <<>>
Two == [j \in 1 .. 2 |-> NoBox]
RECURSIVE Full(_)
Full(TT) == IF TT.pdepth >= P.sd THEN TT
            ELSE Full(FoldLeft(LAMBDA t, p : MkB(P, t, p, Two), TT, TT.layers[TT.pdepth + 1]))
T0 == Full(RootTree(NoBox))
Init == T = T0 /\ f = [c \in 1 .. T0.n |-> <<0, 0, 0>>] /\ mode = "told" /\ chain = <<>> /\ hist = <<>>

\* all rank assignments of depth h that are permutations sorted by the lower confidence value
Perms(S) == {p \in [S -> 1 .. Cardinality(S)] : \A a, b \in S : a # b => p[a] # p[b]}
RankChoices(h) ==
  {p \in Perms(Layer(T, h)) : \A a, b \in Layer(T, h) : p[a] < p[b] => LCB(P, f, a) >= LCB(P, f, b)}

\* random descent from cell c to the depth cap, expanding leaves on the way: set of <<tree, chain>>
RECURSIVE Descents(_, _)
Descents(TT, c) ==
  IF TT.dep[c] >= P.hcap THEN {<<TT, <<c>>>>}
  ELSE LET T1 == IF IsLeaf(TT, c) THEN MkB(P, TT, c, Two) ELSE TT IN
       UNION {{<<d[1], <<c>> \o d[2]>> : d \in Descents(T1, T1.kids[c][j])} : j \in 1 .. 2}

Ranked == UNION {Layer(T, h) : h \in 1 .. P.sd}
Pull ==
  /\ mode = "told" /\ Len(hist) < P.R
  /\ \E r1 \in RankChoices(1) : \E r2 \in (IF P.sd >= 2 THEN RankChoices(2) ELSE {<<>>}) :
       \E c \in Ranked : \E d \in Descents(T, c) :
          /\ T' = d[1] /\ chain' = d[2]
          /\ f' = [x \in 1 .. d[1].n |->
                     IF x > Len(f) THEN <<0, 0, 0>>
                     ELSE IF T.dep[x] = 1 THEN <<f[x][1], f[x][2], r1[x]>>
                     ELSE IF T.dep[x] = 2 /\ P.sd >= 2 THEN <<f[x][1], f[x][2], r2[x]>> ELSE f[x]]
  /\ mode' = "asked" /\ UNCHANGED hist
Receive ==
  /\ mode = "asked"
  /\ \E r \in SeqRange(P.rewards) :
       /\ f' = [x \in DOMAIN f |-> IF x \in SeqRange(chain) THEN <<f[x][1] + 1, f[x][2] + r, f[x][3]>> ELSE f[x]]
       /\ hist' = Append(hist, <<chain, r, [i \in 1 .. Len(chain) - 1 |-> IF T.kids[chain[i]][1] = chain[i + 1] THEN 0 ELSE 1]>>)
  /\ mode' = "told" /\ UNCHANGED <<T, chain>>
Next == Pull \/ Receive
Spec == Init /\ [][Next]_vars

\* C13
InvRanks == mode = "asked" => \A h \in 1 .. P.sd : RankPermutation(T, f, h) /\ RankSorted(P, T, f, h)
InvChain == mode = "asked" => IsChain(P, T, SeqRange(chain))
\* the weights 1/(h r C) of a permutation ranking always sum to one (2^-20 units, rounding aside)
InvProbSum == mode = "asked" =>
   LET cells == ProbIndex(T, P.sd)
       pr == [i \in DOMAIN cells |-> (P.invC + (T.dep[cells[i]] * Rk(f, cells[i])) \div 2) \div (T.dep[cells[i]] * Rk(f, cells[i]))]
   IN ProbLaw(P, T, f, pr)
\* C04: evidence = fold of the history; a credited cell above the cap passes each credit to exactly one child
InvHistory == \A c \in Cells(T) :
   LET mine == SelectSeq(hist, LAMBDA x : c \in SeqRange(x[1])) IN
   Nr(f, c) = Len(mine) /\ Sm(f, c) = FoldLeft(LAMBDA a, x : a + x[2], 0, mine)
InvCountLaw == mode = "told" =>
   /\ \A c \in Cells(T) : (T.dep[c] >= 1 /\ T.dep[c] < P.hcap /\ ~IsLeaf(T, c)) =>
         Nr(f, c) <= FoldLeft(LAMBDA a, k : a + Nr(f, k), 0, T.kids[c])
   /\ Nr(f, 1) = 0                                                  \* the root is never drawn
InvStruct == StructOK(P, T)
Emit == (P.emit = 1 /\ mode = "told" /\ Len(hist) = P.R) => PrintT(<<"BEHAVIOUR", ToJson(hist)>>)
=============================================================================
