--------------------------- MODULE MC_TreeBandit ---------------------------
(***************************************************************************)
(* Exhaustive model of T-HOO / HCT / VHCT for one parameter table (read     *)
(* from the JSON file named by MC_PARAMS): every reward sequence over the   *)
(* alphabet P.rewards up to P.R rounds, every tie-break of the descent.     *)
(* Generative: U and B are computed by the specification's own fixed-point  *)
(* formulas.  C04 / C05 / C06 are invariants.                              *)
(***************************************************************************)
EXTENDS TreeBandit, Json, IOUtils

P == JsonDeserialize(IOEnv.MC_PARAMS)
K == Arity(P)

VARIABLES st, mode, endc, hist, splits
vars == <<st, mode, endc, hist, splits>>

NoBox == <<>>
T0 == MkB(P, RootTree(NoBox), 1, [j \in 1 .. K |-> NoBox])
Zeros(n, v) == [i \in 1 .. n |-> v]
St0 == [T |-> T0, cnt |-> Zeros(T0.n, 0), sum |-> Zeros(T0.n, 0), sq |-> Zeros(T0.n, 0),
        U |-> Zeros(T0.n, PInf), B |-> Zeros(T0.n, PInf), var |-> Zeros(T0.n, IF P.algo = "VHCT" THEN P.vmin ELSE 0),
        tau |-> Zeros(T0.n, 0), iter |-> IF IsHCT(P) THEN 1 ELSE 0]

Init == st = St0 /\ mode = "told" /\ endc = 0 /\ hist = <<>> /\ splits = <<>>

\* VHCT: per-cell threshold, recomputed at every pull (depth >= 1)
TauV(s, c, k) == TauVEst(P, s, c, k)

DoPull ==
  /\ mode = "told" /\ Len(hist) < P.R
  /\ LET k  == Epoch(st.iter)
         s1 == IF P.algo = "VHCT" THEN [st EXCEPT !.tau = [c \in DOMAIN @ |-> IF c = 1 THEN 0 ELSE TauV(st, c, k)]] ELSE st
     IN /\ st' = s1 /\ endc' \in PullEnds(P, s1)
  /\ mode' = "asked" /\ UNCHANGED <<hist, splits>>
DoPullLeaf == DoPull /\ IsLeaf(st'.T, endc')
DoPullInternal == DoPull /\ ~IsLeaf(st'.T, endc')   \* the descent stops at a split cell whose threshold has grown past its count

Expand(s, e) == Extend([s EXCEPT !.T = MkB(P, s.T, e, [j \in 1 .. K |-> NoBox])], K)
WithVar(s, cs) == IF P.algo = "VHCT" THEN [s EXCEPT !.var = [c \in DOMAIN @ |-> IF c \in cs THEN VarFx(P, s, c) ELSE @[c]]] ELSE s

DoRecv ==
  /\ mode = "asked"
  /\ \E r \in SeqRange(P.rewards) :
       LET k   == Epoch(st.iter)
           e   == endc
           s0  == IF IsHCT(P) /\ IsRefresh(st.iter)
                  THEN Backward([st EXCEPT !.U = [c \in DOMAIN @ |-> UVal(P, st, c, k)]]) ELSE st
           s1  == WithVar(Credit(P, s0, e, r), Credited(P, s0.T, e))
           tch == IF P.algo = "THOO" THEN Credited(P, s1.T, e) ELSE {e}       \* T-HOO recomputes all cells; only the path changes
           s2  == [s1 EXCEPT !.U = [c \in DOMAIN @ |-> IF c \in tch THEN UVal(P, s1, c, k) ELSE @[c]]]
           g   == Grows(P, s2, e, k)
           s3  == IF IsHCT(P) THEN (IF g THEN Expand(Backward(s2), e) ELSE Backward(s2))
                  ELSE Backward(IF g THEN Expand(s2, e) ELSE s2)
       IN /\ st' = [s3 EXCEPT !.iter = @ + 1]
          /\ hist' = Append(hist, <<e, r, IF g THEN 1 ELSE 0>>)
          /\ splits' = IF g THEN Append(splits, <<e, s2.cnt[e], IF IsHCT(P) THEN TauOf(P, s2, e, k) ELSE 0>>) ELSE splits
  /\ mode' = "told" /\ UNCHANGED endc

DoRecvGrow == DoRecv /\ st'.T.n > st.T.n
DoRecvStay == DoRecv /\ st'.T.n = st.T.n
Next == DoPullLeaf \/ DoPullInternal \/ DoRecvGrow \/ DoRecvStay
Spec == Init /\ [][Next]_vars
Bound == Len(hist) <= P.R

----------------------------------------------------------------------------
Rounds == Len(hist)
\* C04
InvCounts == mode = "told" => (IF P.algo = "THOO" THEN st.cnt[1] = Rounds ELSE FoldLeft(LAMBDA a, b : a + b, 0, st.cnt) = Rounds)
InvHistory ==   \* evidence of every cell = fold of the history
  \A c \in Cells(st.T) :
     LET mine == SelectSeq(hist, LAMBDA x : c \in Credited(P, st.T, x[1])) IN
     /\ st.cnt[c] = Len(mine)
     /\ st.sum[c] = FoldLeft(LAMBDA a, x : a + x[2], 0, mine)
     /\ st.sq[c]  = FoldLeft(LAMBDA a, x : a + x[2] * x[2], 0, mine)
InvTHOOTree == P.algo = "THOO" => \A c \in Cells(st.T) : ~IsLeaf(st.T, c) =>
                  st.cnt[c] = Len(SelectSeq(hist, LAMBDA x : x[1] = c)) + FoldLeft(LAMBDA a, k : a + st.cnt[k], 0, st.T.kids[c])
\* C05
InvBLaw  == mode = "told" => BLaw(st)
InvFresh == \A c \in Cells(st.T) : st.cnt[c] = 0 => st.U[c] = PInf
InvEndIsStop == mode = "asked" => Stops(P, st, endc, Epoch(st.iter))
\* C06
InvSplits ==
  /\ \A i \in DOMAIN splits : IF IsHCT(P) THEN splits[i][2] >= splits[i][3] ELSE st.T.dep[splits[i][1]] <= P.dbound
  /\ {splits[i][1] : i \in DOMAIN splits} = {c \in Cells(st.T) \ {1} : ~IsLeaf(st.T, c)}      \* every internal cell was split once, by the rule
  /\ Len(splits) = Cardinality({splits[i][1] : i \in DOMAIN splits})
InvDepth  == P.algo = "THOO" => st.T.pdepth <= MaxI(P.dbound + 1, 1)
InvStruct == StructOK(P, st.T)
StepGrowth == [][st'.T.n - st.T.n \in {0, K} /\ (st'.T.n > st.T.n => (mode = "asked" /\ st'.T.kids[endc] # <<>> /\ st.T.kids[endc] = <<>>))]_vars
\* coverage witness: the descent stopped at an internal cell whose threshold had grown
StoppedAtInternal == mode = "asked" /\ ~IsLeaf(st.T, endc)

Terminal == mode = "told" /\ Len(hist) = P.R
Emit == (P.emit = 1 /\ Terminal) => PrintT(<<"BEHAVIOUR", ToJson(hist)>>)
=============================================================================
