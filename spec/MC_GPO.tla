------------------------------ MODULE MC_GPO ------------------------------
(* Exhaustive model of the GPO schedule for one (N, half): all reward      *)
(* sequences over Rewards, run to completion plus Extra rounds.            *)
EXTENDS GPO
CONSTANTS NN, HALF, Rewards, Extra
VARIABLES G, mode, rounds, lastret
vars == <<G, mode, rounds, lastret>>

Init == G = GInit /\ mode = "told" /\ rounds = 0 /\ lastret = {}
DoPull == /\ mode = "told" /\ rounds < 2 * HALF * NN + Extra
          /\ LET r == Pull(NN, HALF, G) IN G' = r.G /\ lastret' = r.ret
          /\ mode' = "asked" /\ UNCHANGED rounds
DoRecv == /\ mode = "asked"
          /\ \E r \in Rewards : G' = Receive(NN, HALF, G, r).G
          /\ mode' = "told" /\ rounds' = rounds + 1 /\ UNCHANGED lastret
Next == DoPull \/ DoRecv
Spec == Init /\ [][Next]_vars

InvLearners   == LearnersOK(NN, HALF, G)
InvValidation == ValidationOK(NN, HALF, G)
InvBudget     == mode = "told" => BudgetOK(NN, HALF, G, rounds)
\* once all phases are over the returned point is a validated point of maximal score
InvFinal == (Finished(NN, G) /\ mode = "asked") =>
              /\ lastret # {}
              /\ \A pt \in lastret : \E i \in 1 .. NN : pt = <<i, HALF>> /\ i \in Best(G)
\* a learner never serves a pull after its phase, never receives a reward after its half rounds
StepProp == [][\A i \in DOMAIN G.lp : i < G.phase => (G'.lp[i] = G.lp[i] /\ G'.lr[i] = G.lr[i])]_vars
=============================================================================
