---------------------------- MODULE MC_Partition ----------------------------
(***************************************************************************)
(* Exhaustive model of the partition layer on an integer lattice: every    *)
(* interleaving of deepen() and make_children(leaf, newlayer = leaf is at   *)
(* the deepest level), every split dimension, every cut the class may      *)
(* draw (random kinds: every non-decreasing lattice cut vector, end points *)
(* included).  Properties C02 and C03 are invariants.                      *)
(***************************************************************************)
EXTENDS PartitionTree, Json

CONSTANTS Kind, KK, DD, W, MaxCells, MaxDepth, EmitJson

P == [kind |-> Kind, K |-> KK, D |-> DD, metric |-> "lattice"]

VARIABLES T, hist
vars == <<T, hist>>

RootBox == [x \in 1 .. DD |-> <<0, W>>]

Init == T = RootTree(RootBox) /\ hist = <<>>

CutSet(pbox, dim) ==
  IF Kind = "dbin"
  THEN {c \in [1 .. DD -> 0 .. W] : CutsOK(P, pbox, 1, c)}
  ELSE IF Kind \in {"bin", "kary"}
  THEN \* equal-size kinds have at most one admissible cut vector: build it instead of filtering (W+1)^(K+1) candidates
       LET lo == pbox[dim][1]  hi == pbox[dim][2]  K == Arity(P)
           c == [j \in 1 .. K + 1 |-> lo + (j - 1) * ((hi - lo) \div K)]
       IN IF CutsOK(P, pbox, dim, c) THEN {c} ELSE {}
  ELSE {c \in [1 .. Arity(P) + 1 -> pbox[dim][1] .. pbox[dim][2]] : CutsOK(P, pbox, dim, c)}

Dims == IF Kind = "dbin" THEN {1} ELSE 1 .. DD

MkStep ==
  \E p \in Leaves(T) :
    /\ T.dep[p] < MaxDepth
    /\ T.n + Arity(P) <= MaxCells
    /\ \E dim \in Dims : \E cuts \in CutSet(T.box[p], dim) :
         /\ T' = Mk(P, T, p, dim, cuts)
         /\ hist' = Append(hist, [op |-> "mk", p |-> p, nl |-> NewLayerFlag(T, p), dim |-> dim, cuts |-> cuts])

\* deepen(): all cells of the deepest layer, in list order; each one draws its own split
RECURSIVE DeepenSet(_, _, _)
DeepenSet(Tr, todo, h) ==     \* set of <<tree, history>> pairs
  IF todo = <<>> THEN {<<Tr, h>>}
  ELSE UNION { UNION { DeepenSet(Mk(P, Tr, Head(todo), dim, cuts), Tail(todo),
                                Append(h, [op |-> "mk", p |-> Head(todo), nl |-> NewLayerFlag(Tr, Head(todo)), dim |-> dim, cuts |-> cuts]))
                       : cuts \in CutSet(Tr.box[Head(todo)], dim)} : dim \in Dims }

DeepenStep ==
  /\ T.pdepth < MaxDepth
  /\ T.n + Arity(P) * Len(T.layers[T.pdepth + 1]) <= MaxCells
  /\ \A c \in SeqRange(T.layers[T.pdepth + 1]) : IsLeaf(T, c)
  /\ \E r \in DeepenSet(T, T.layers[T.pdepth + 1], <<[op |-> "deepen"]>>) :
        T' = r[1] /\ hist' = hist \o r[2]

Next == MkStep \/ DeepenStep
Spec == Init /\ [][Next]_vars

----------------------------------------------------------------------------
InvStruct      == StructOK(P, T) /\ NoSharedChildren(T)   \* C03
InvTiled       == EveryParentTiled(P, T)               \* C02 (order form)
InvLeavesTile  == LeavesTileLattice(T, 0, W - 1)       \* C02 (pointwise)
InvInsideRoot  == AllInsideRoot(T)                     \* C01 ingredient
InvEqualWidths == EqualWidthsLattice(P, T)             \* C02 (equal-size kinds)
InvArity       == \A c \in Cells(T) : IsLeaf(T, c) \/ Len(T.kids[c]) = Arity(P)

\* boxes, labels and links of existing cells never change; cells are only added
StepProp == [][ /\ T'.n >= T.n
                /\ \A c \in Cells(T) : /\ T'.box[c] = T.box[c] /\ T'.dep[c] = T.dep[c]
                                       /\ T'.idx[c] = T.idx[c] /\ T'.parent[c] = T.parent[c]
                                       /\ (~IsLeaf(T, c) => T'.kids[c] = T.kids[c]) ]_vars

\* behaviour emission for replay into the implementation
Terminal == ~ENABLED Next
Emit == (EmitJson /\ Terminal) => PrintT(<<"BEHAVIOUR", ToJson(hist)>>)
=============================================================================
