----------------------------- MODULE Trace_Stro -----------------------------
(* Trace validation of StroquOOL runs against StroquOOL.tla. *)
EXTENDS StroquOOL, TraceTree, Json, IOUtils, TLCExt
Traces == JsonDeserialize(IOEnv.TRACE_FILE)
VARIABLES tid, l, T, f, cand, ended, asked, ph, err, done, z, chosen, csets, sched
vars == <<tid, l, T, f, cand, ended, asked, ph, err, done, z, chosen, csets, sched>>
Tr == Traces[tid]
PP == Tr.P
Ev == Tr.ev
ApplyFc(ff, fc) == FoldLeft(LAMBDA acc, x : IF x[1] \in DOMAIN acc THEN [acc EXCEPT ![x[1]] = SubSeq(x, 2, 6)] ELSE acc, ff, fc)
Changed(ff, g) == {c \in DOMAIN ff : ff[c] # g[c]}
Init == /\ tid \in 1 .. Len(Traces) /\ l = 1 /\ ph = "new" /\ err = "ok" /\ done = FALSE
        /\ T = [n |-> 0] /\ f = <<>> /\ cand = {} /\ ended = FALSE /\ asked = {}
        /\ z = ZInit /\ chosen = <<>> /\ csets = <<>> /\ sched = "ok"
CallFail(e) == IF Has(e, "hang") THEN "call.hangs" ELSE IF Has(e, "exc") THEN "call.raises"
               ELSE IF e.k \in {"pull", "glp"} /\ e.ptok # 1 THEN "call.not-a-point"
               ELSE IF ~NoStructChange(e) \/ e.pd # T.pdepth THEN "call.struct-change" ELSE "ok"

HMax == PP.hmax
\* ---- the schedule (beyond the listed properties; first deviation is kept in `sched`, it never stops the walk) ----
MeanCode(ff, c) == ff[c][5]
CandSet(ff, q) == LET E == {c \in SeqRange(chosen) : Cnt(ff, c) >= 2 ^ q} IN {c \in E : \A d \in E : MeanCode(ff, c) >= MeanCode(ff, d)}

SchedMk(e, f1) ==     \* an expansion: which cell may be opened now
  IF z.ph = "root" /\ z.fresh THEN (IF e.p = 1 THEN "ok" ELSE "stro.first-expansion-not-root")
  ELSE IF z.ph = "open" /\ z.fresh THEN (IF e.p \in OpenChoices(T, f1, z.d, z.p) THEN "ok" ELSE "stro.opened-not-best-qualifying")
  ELSE "stro.unexpected-expansion"

SchedPull(e, f1) ==   \* a hand-out: <<verdict, next schedule state, candidate sets>>
  LET cs == SeqRange(e.cands) IN
  IF z.ph \in {"root", "open"}
  THEN LET v0 == IF z.fresh /\ (z.ph = "root" \/ Qualifying(T, f, z.d, z.p) # {}) THEN "stro.missing-expansion" ELSE "ok"
           m  == z.m
           want == IF m \in Cells(T) /\ Len(T.kids[m]) >= 2 THEN T.kids[m][z.k] ELSE 0
           c1 == z.c + 1
           z1 == IF c1 >= Quota(HMax, z) THEN AfterKid(HMax, [z EXCEPT !.fresh = FALSE]) ELSE [z EXCEPT !.c = c1, !.fresh = FALSE]
       IN <<IF v0 # "ok" THEN v0 ELSE IF ~(want \in cs) THEN "stro.wrong-cell-or-count" ELSE "ok", z1, csets>>
  ELSE IF z.ph = "val"
  THEN LET A  == [q \in 1 .. PP.pmax + 1 |-> CandSet(f, q - 1)]
           Rs == Restarted(f, f1)
           cset == IF z.fresh THEN [q \in 1 .. PP.pmax + 1 |-> A[q] \cap Rs] ELSE csets
           v0 == IF z.fresh /\ ~(Rs \subseteq UNION {A[q] : q \in DOMAIN A} /\ \A q \in DOMAIN A : A[q] \cap Rs # {}) THEN "stro.candidates" ELSE "ok"
           ok == z.slot + 1 \in DOMAIN cset /\ cs \cap cset[z.slot + 1] # {}
           c1 == z.c + 1
           z1 == IF c1 >= HMax THEN (IF z.slot + 1 > PP.pmax THEN [z EXCEPT !.ph = "end", !.fresh = FALSE] ELSE [z EXCEPT !.slot = @ + 1, !.c = 0, !.fresh = FALSE])
                 ELSE [z EXCEPT !.c = c1, !.fresh = FALSE]
       IN <<IF v0 # "ok" THEN v0 ELSE IF ~ok THEN "stro.validated-wrong-cell" ELSE "ok", z1, cset>>
  ELSE <<"ok", z, csets>>

PullStep(e) ==
  LET f1 == ApplyFc(f, e.fc)
      rs == Restarted(f, f1)
      other == Changed(f, f1) \ rs
  IN [f |-> f1, cand |-> IF rs # {} THEN rs ELSE cand,
      err |-> IF rs # {} /\ cand # {} THEN "credit.second-restart"           \* the one sanctioned loss happens once
              ELSE IF ~RestartOK(f, f1) THEN "credit.restart-touches-counts"
              ELSE IF ~(\A c \in other : SubSeq(f1[c], 1, 3) = SubSeq(f[c], 1, 3)) THEN "stats.pull-mutates"   \* only the opened flag may change
              ELSE "ok"]

RecvStep(e) ==
  LET f1 == ApplyFc(f, e.fc)
      ch == Changed(f, f1) IN
  IF ch = {} THEN [f |-> f1, ended |-> TRUE, err |-> IF cand = {} THEN "credit.lost-reward" ELSE "ok"]   \* ignored rewards only once validation is under way
  ELSE IF ended THEN [f |-> f1, ended |-> ended, err |-> "credit.after-end"]
  ELSE [f |-> f1, ended |-> ended,
        err |-> IF ~(\E c \in asked : CreditOK(f, f1, c, e.r)) THEN (IF ch \cap asked = {} THEN "credit.wrong-cell" ELSE "credit.reward") ELSE "ok"]

GlpStep(e) ==
  IF e.fc # <<>> /\ ~(\A i \in DOMAIN e.fc : SubSeq(e.fc[i], 2, 5) = SubSeq(f[e.fc[i][1]], 1, 4)) THEN "rec.mutates"
  ELSE IF cand = {} \/ RecBest(f, cand) = {} THEN "ok"            \* stopped before validation produced anything: unspecified
  ELSE IF SeqRange(e.cands) \cap cand = {} THEN "rec.not-a-candidate"
  ELSE IF SeqRange(e.cands) \cap RecBest(f, cand) = {} THEN "rec.not-best-validated" ELSE "ok"

Step ==
  /\ ~done /\ err = "ok" /\ l <= Len(Ev)
  /\ LET e == Ev[l] IN
     CASE e.k = "init" ->
            /\ T' = TreeOfInit(e) /\ f' = [c \in DOMAIN e.f |-> SubSeq(e.f[c], 1, 5)] /\ err' = InitCheck(PP, e) /\ ph' = "told"
            /\ UNCHANGED <<cand, ended, asked, z, chosen, csets, sched>>
       [] e.k = "mk" ->
            LET c0 == MkCheckEv(PP, T, e, LAMBDA d : Cnt(f, d) > 0) IN
            /\ err' = IF c0 # "ok" THEN c0 ELSE IF ~(\A j \in DOMAIN e.nf : SubSeq(e.nf[j], 2, 4) = <<0, 0, 0>>) THEN "grow.not-fresh"
                      ELSE IF ~(\A i \in DOMAIN e.fc : e.fc[i][1] \in DOMAIN f /\ SubSeq(e.fc[i], 2, 5) = SubSeq(f[e.fc[i][1]], 1, 4)) THEN "stats.changed-in-make-children" ELSE "ok"
            /\ T' = IF c0 = "ok" THEN MkApply(PP, T, e) ELSE T
            /\ f' = IF c0 = "ok" THEN ApplyFc(f, e.fc) \o [j \in DOMAIN e.nf |-> SubSeq(e.nf[j], 2, 6)] ELSE f
            /\ LET v == IF c0 = "ok" /\ PP.consecutive = 1 THEN SchedMk(e, ApplyFc(f, e.fc)) ELSE "ok" IN
               /\ sched' = (IF sched = "ok" THEN v ELSE sched)
               /\ z' = (IF c0 = "ok" THEN [z EXCEPT !.m = e.p, !.fresh = FALSE] ELSE z)
               /\ chosen' = (IF c0 = "ok" /\ Len(e.new) >= 2 THEN chosen \o <<e.new[1].id, e.new[2].id>> ELSE chosen)
            /\ UNCHANGED <<cand, ended, asked, ph, csets>>
       [] e.k = "pull" ->
            LET c0 == CallFail(e) IN
            IF ph # "told" THEN err' = "protocol" /\ UNCHANGED <<T, f, cand, ended, asked, ph, z, chosen, csets, sched>>
            ELSE IF c0 # "ok" THEN err' = c0 /\ UNCHANGED <<T, f, cand, ended, asked, ph, z, chosen, csets, sched>>
            ELSE LET r == PullStep(e) IN
                 /\ f' = r.f /\ cand' = r.cand /\ err' = r.err /\ asked' = SeqRange(e.cands) /\ ph' = "asked" /\ UNCHANGED <<T, ended, chosen>>
                 /\ LET sp == IF PP.consecutive = 1 /\ sched = "ok" THEN SchedPull(e, r.f) ELSE <<"ok", z, csets>> IN
                    /\ sched' = (IF sched = "ok" THEN sp[1] ELSE sched) /\ z' = sp[2] /\ csets' = sp[3]
       [] e.k = "recv" ->
            LET c0 == CallFail(e) IN
            IF ph # "asked" THEN err' = "protocol" /\ UNCHANGED <<T, f, cand, ended, asked, ph, z, chosen, csets, sched>>
            ELSE IF c0 # "ok" THEN err' = c0 /\ UNCHANGED <<T, f, cand, ended, asked, ph, z, chosen, csets, sched>>
            ELSE LET r == RecvStep(e) IN
                 /\ f' = r.f /\ ended' = r.ended /\ err' = r.err /\ ph' = "told" /\ UNCHANGED <<T, cand, asked, z, chosen, csets, sched>>
       [] e.k = "glp" ->
            LET c0 == CallFail(e) IN
            /\ err' = (IF c0 # "ok" THEN c0 ELSE GlpStep(e))
            /\ UNCHANGED <<T, f, cand, ended, asked, ph, z, chosen, csets, sched>>
       [] e.k = "end" -> /\ err' = (IF ~StructOK(PP, T) THEN "final.struct" ELSE "ok") /\ UNCHANGED <<T, f, cand, ended, asked, ph, z, chosen, csets, sched>>
       [] OTHER -> err' = "unknown-event" /\ UNCHANGED <<T, f, cand, ended, asked, ph, z, chosen, csets, sched>>
  /\ l' = l + 1 /\ UNCHANGED <<tid, done>>
Finish ==
  /\ ~done /\ (err # "ok" \/ l > Len(Ev))
  /\ PrintT(<<"VERDICT", Tr.id, err, l - 1, IF T.n > 0 THEN T.n ELSE 0, sched>>)
  /\ done' = TRUE /\ UNCHANGED <<tid, l, T, f, cand, ended, asked, ph, err, z, chosen, csets, sched>>
Next == Step \/ Finish
Spec == Init /\ [][Next]_vars
=============================================================================
