----------------------------- MODULE Trace_Stro -----------------------------
(* Trace validation of StroquOOL runs against StroquOOL.tla. *)
EXTENDS StroquOOL, TraceTree, Json, IOUtils, TLCExt
Traces == JsonDeserialize(IOEnv.TRACE_FILE)
VARIABLES tid, l, T, f, cand, ended, asked, ph, err, done
vars == <<tid, l, T, f, cand, ended, asked, ph, err, done>>
Tr == Traces[tid]
PP == Tr.P
Ev == Tr.ev
ApplyFc(ff, fc) == FoldLeft(LAMBDA acc, x : IF x[1] \in DOMAIN acc THEN [acc EXCEPT ![x[1]] = SubSeq(x, 2, 5)] ELSE acc, ff, fc)
Changed(ff, g) == {c \in DOMAIN ff : ff[c] # g[c]}
Init == /\ tid \in 1 .. Len(Traces) /\ l = 1 /\ ph = "new" /\ err = "ok" /\ done = FALSE
        /\ T = [n |-> 0] /\ f = <<>> /\ cand = {} /\ ended = FALSE /\ asked = {}
CallFail(e) == IF Has(e, "hang") THEN "call.hangs" ELSE IF Has(e, "exc") THEN "call.raises"
               ELSE IF e.k \in {"pull", "glp"} /\ e.ptok # 1 THEN "call.not-a-point"
               ELSE IF ~NoStructChange(e) \/ e.pd # T.pdepth THEN "call.struct-change" ELSE "ok"

PullStep(e) ==
  LET f1 == ApplyFc(f, e.fc)
      rs == Restarted(f, f1)
      other == Changed(f, f1) \ rs
  IN [f |-> f1, cand |-> IF rs # {} THEN rs ELSE cand,
      err |-> IF rs # {} /\ cand # {} THEN "credit.second-restart"           \* the one sanctioned loss happens once
              ELSE IF ~RestartOK(f, f1) THEN "credit.restart-touches-counts"
              ELSE IF ~(\A c \in other : SubSeq(f1[c], 1, 3) = SubSeq(f[c], 1, 3)) THEN "stats.pull-mutates"   \* only the opened flag may change
              ELSE "ok"]

RecvStep(e) ==
  LET f1 == ApplyFc(f, e.fc)
      ch == Changed(f, f1) IN
  IF ch = {} THEN [f |-> f1, ended |-> TRUE, err |-> IF cand = {} THEN "credit.lost-reward" ELSE "ok"]   \* ignored rewards only once validation is under way
  ELSE IF ended THEN [f |-> f1, ended |-> ended, err |-> "credit.after-end"]
  ELSE [f |-> f1, ended |-> ended,
        err |-> IF ~(\E c \in asked : CreditOK(f, f1, c, e.r)) THEN (IF ch \cap asked = {} THEN "credit.wrong-cell" ELSE "credit.reward") ELSE "ok"]

GlpStep(e) ==
  IF e.fc # <<>> /\ ~(\A i \in DOMAIN e.fc : SubSeq(e.fc[i], 2, 5) = f[e.fc[i][1]]) THEN "rec.mutates"
  ELSE IF cand = {} \/ RecBest(f, cand) = {} THEN "ok"            \* stopped before validation produced anything: unspecified
  ELSE IF SeqRange(e.cands) \cap cand = {} THEN "rec.not-a-candidate"
  ELSE IF SeqRange(e.cands) \cap RecBest(f, cand) = {} THEN "rec.not-best-validated" ELSE "ok"

Step ==
  /\ ~done /\ err = "ok" /\ l <= Len(Ev)
  /\ LET e == Ev[l] IN
     CASE e.k = "init" ->
            /\ T' = TreeOfInit(e) /\ f' = [c \in DOMAIN e.f |-> SubSeq(e.f[c], 1, 4)] /\ err' = InitCheck(PP, e) /\ ph' = "told"
            /\ UNCHANGED <<cand, ended, asked>>
       [] e.k = "mk" ->
            LET c0 == MkCheck(PP, T, e) IN
            /\ err' = IF c0 # "ok" THEN c0 ELSE IF ~(\A j \in DOMAIN e.nf : SubSeq(e.nf[j], 2, 4) = <<0, 0, 0>>) THEN "grow.not-fresh" ELSE "ok"
            /\ T' = IF c0 = "ok" THEN MkApply(PP, T, e) ELSE T
            /\ f' = IF c0 = "ok" THEN f \o [j \in DOMAIN e.nf |-> SubSeq(e.nf[j], 2, 5)] ELSE f
            /\ UNCHANGED <<cand, ended, asked, ph>>
       [] e.k = "pull" ->
            LET c0 == CallFail(e) IN
            IF ph # "told" THEN err' = "protocol" /\ UNCHANGED <<T, f, cand, ended, asked, ph>>
            ELSE IF c0 # "ok" THEN err' = c0 /\ UNCHANGED <<T, f, cand, ended, asked, ph>>
            ELSE LET r == PullStep(e) IN
                 /\ f' = r.f /\ cand' = r.cand /\ err' = r.err /\ asked' = SeqRange(e.cands) /\ ph' = "asked" /\ UNCHANGED <<T, ended>>
       [] e.k = "recv" ->
            LET c0 == CallFail(e) IN
            IF ph # "asked" THEN err' = "protocol" /\ UNCHANGED <<T, f, cand, ended, asked, ph>>
            ELSE IF c0 # "ok" THEN err' = c0 /\ UNCHANGED <<T, f, cand, ended, asked, ph>>
            ELSE LET r == RecvStep(e) IN
                 /\ f' = r.f /\ ended' = r.ended /\ err' = r.err /\ ph' = "told" /\ UNCHANGED <<T, cand, asked>>
       [] e.k = "glp" ->
            LET c0 == CallFail(e) IN
            /\ err' = (IF c0 # "ok" THEN c0 ELSE GlpStep(e))
            /\ UNCHANGED <<T, f, cand, ended, asked, ph>>
       [] e.k = "end" -> /\ err' = (IF ~StructOK(PP, T) THEN "final.struct" ELSE "ok") /\ UNCHANGED <<T, f, cand, ended, asked, ph>>
       [] OTHER -> err' = "unknown-event" /\ UNCHANGED <<T, f, cand, ended, asked, ph>>
  /\ l' = l + 1 /\ UNCHANGED <<tid, done>>
Finish ==
  /\ ~done /\ (err # "ok" \/ l > Len(Ev))
  /\ PrintT(<<"VERDICT", Tr.id, err, l - 1, IF T.n > 0 THEN T.n ELSE 0>>)
  /\ done' = TRUE /\ UNCHANGED <<tid, l, T, f, cand, ended, asked, ph, err>>
Next == Step \/ Finish
Spec == Init /\ [][Next]_vars
=============================================================================
