------------------------------ MODULE SequOOL ------------------------------
(***************************************************************************)
(* SequOOL (PyXAB/algos/SequOOL.py, docs/.../SequOOL/SequOOL.png).          *)
(*                                                                         *)
(* Open the root; then for h = 1, 2, ... open at most floor(hmax/h) cells   *)
(* of depth h, each time an unopened cell of that depth with the highest    *)
(* observed reward; opening a cell evaluates its children once each, in     *)
(* child-list order (one per pull).  hmax = floor(n / H_n).  When the       *)
(* schedule is exhausted, pulls return the domain centre.                  *)
(*                                                                         *)
(* Evidence per cell: f[c] = <<nrew, first reward (NInf = none), opened>>   *)
(* Control state s: dep (depth being processed), budget (openings left at   *)
(* this depth), loc (children of the current target already handed out),    *)
(* tgt (cell being opened, 0 = none chosen yet)                            *)
(***************************************************************************)
EXTENDS PartitionTree, FP

SInit == [dep |-> 0, budget |-> 0, loc |-> 0, tgt |-> 0]

Nrew(f, c) == f[c][1]
Rew(f, c)  == f[c][2]
Opened(f, c) == f[c][3] = 1
Unopened(T, f, h) == IF h + 1 \in DOMAIN T.layers THEN {c \in SeqRange(T.layers[h + 1]) : ~Opened(f, c)} ELSE {}
Exhausted(hmax, s) == s.dep > hmax

\* cells that may be chosen for opening now (ties: any maximiser)
Targets(T, f, s) ==
  IF s.loc > 0 THEN {s.tgt}
  ELSE IF s.dep = 0 THEN {1}
  ELSE LET U == Unopened(T, f, s.dep) IN {c \in U : \A d \in U : Rew(f, c) >= Rew(f, d)}

\* handing out the next child of target t (tree already contains t's children)
\* result: the cell handed out, whether t becomes opened, the next control state
Serve(hmax, T, f, s, t) ==
  LET K    == Len(T.kids[t])
      kid  == T.kids[t][s.loc + 1]
      last == s.loc + 1 = K
      num  == IF s.dep = 0 THEN 1 ELSE Cardinality(Unopened(T, f, s.dep))
      b1   == s.budget - 1
      adv  == s.dep = 0 \/ b1 = 0 \/ num = 1
      nd   == s.dep + 1
  IN [cell |-> kid, opens |-> last /\ s.dep > 0,
      s |-> IF ~last THEN [s EXCEPT !.loc = @ + 1, !.tgt = t]
            ELSE IF adv THEN [dep |-> nd, budget |-> hmax \div nd, loc |-> 0, tgt |-> 0]
            ELSE [s EXCEPT !.budget = b1, !.loc = 0, !.tgt = 0]]

\* C12 as statements about a state
OpenedAt(T, f, h) == {c \in Cells(T) : T.dep[c] = h /\ (Opened(f, c) \/ (h = 0 /\ ~IsLeaf(T, c)))}
BudgetOK(hmax, T, f) ==
  /\ \A h \in 1 .. T.pdepth : Cardinality(OpenedAt(T, f, h)) <= hmax \div h
  /\ \A c \in Cells(T) : ~IsLeaf(T, c) => T.dep[c] <= hmax                 \* never opening beyond hmax
  /\ \A c \in Cells(T) \ {1} : Nrew(f, c) <= 1                              \* no search cell evaluated twice
\* C07: best evaluated search cell
EvaluatedS(T, f) == {c \in Cells(T) \ {1} : Nrew(f, c) >= 1}
RecBest(T, f) == {c \in EvaluatedS(T, f) : \A d \in EvaluatedS(T, f) : Rew(f, c) >= Rew(f, d)}
=============================================================================
