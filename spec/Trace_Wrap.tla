----------------------------- MODULE Trace_Wrap -----------------------------
(***************************************************************************)
(* Trace validation of POO / GPO / PCT / VPCT against POO.tla and GPO.tla.  *)
(* Each public call is one event carrying `sub`, the constructions, pulls   *)
(* and rewards observed by the recording base-learner class during that     *)
(* call; the specification's Pull/Receive predict them exactly.            *)
(***************************************************************************)
EXTENDS Naturals, Integers, Sequences, FiniteSets, SequencesExt, TLC, Json, IOUtils, TLCExt

Gp == INSTANCE GPO
Po == INSTANCE POO

Traces == JsonDeserialize(IOEnv.TRACE_FILE)
VARIABLES tid, l, G, pidOf, ph, err, soft, done
vars == <<tid, l, G, pidOf, ph, err, soft, done>>
Tr == Traces[tid]
PP == Tr.P
Ev == Tr.ev
IsGPO == PP.algo \in {"GPO", "PCT", "VPCT"}
Has(e, f) == f \in DOMAIN e
Abs(x) == IF x < 0 THEN -x ELSE x

Init == /\ tid \in 1 .. Len(Traces) /\ l = 1 /\ ph = "new" /\ err = "ok" /\ soft = <<>> /\ done = FALSE
        /\ G = [x |-> 0] /\ pidOf = <<>>

\* projections of the observed sub-events onto the specification's vocabulary
Proj(sub) == [i \in DOMAIN sub |-> IF sub[i][1] = "recv" THEN <<"recv", sub[i][2], sub[i][3]>> ELSE <<sub[i][1], sub[i][2]>>]
\* pidOf[L] = sequence of point ids proposed by learner L in rounds (not in recommendation queries)
AddPids(po, sub) ==
  LET step(acc, s) ==
        IF s[1] = "new" THEN Append(acc, <<>>)
        ELSE IF s[1] = "pull" /\ s[2] \in DOMAIN acc THEN [acc EXCEPT ![s[2]] = Append(@, s[3])]
        ELSE acc
  IN FoldLeft(step, po, sub)
PidOfPt(po, pt) == IF pt[1] \in DOMAIN po /\ pt[2] \in DOMAIN po[pt[1]] THEN po[pt[1]][pt[2]] ELSE -1

CallFail(e) == IF Has(e, "hang") THEN "call.hangs" ELSE IF Has(e, "exc") THEN "call.raises"
               ELSE IF e.k \in {"pull", "glp"} /\ e.ptok # 1 THEN "call.not-a-point" ELSE "ok"

\* Soft clauses: the specification's state (G) is driven by the call sequence and the rewards alone, never by what the
\* implementation reports about scores, parameters or points, so after such a mismatch the walk goes on and later
\* clauses (other properties' too, e.g. the final recommendation) are still judged.  <<clause, event>>, first
\* occurrence of each clause, at most 6.  Hard: only what makes the rest uninterpretable (a call that fails, learners
\* created / pulled / rewarded differently from the schedule).
AddSoft(sf, c, at) == IF c = "ok" \/ Len(sf) >= 6 \/ (\E i \in DOMAIN sf : sf[i][1] = c) THEN sf ELSE Append(sf, <<c, at>>)
SoftString(sf) == FoldLeft(LAMBDA acc, x : (IF acc = "" THEN "" ELSE acc \o "|") \o x[1] \o "@" \o ToString(x[2]), "", sf)

\* observed score (scale SV) equals the mean sum/cnt of grid rewards (unit 1/RU)
ScoreOK(v, sum, cnt) == Abs(v * cnt * PP.RU - sum * PP.SV) <= cnt * PP.RU

-----------------------------------------------------------------------------
GpoRhoOK(sub) ==
  \A i \in DOMAIN sub : sub[i][1] = "new" =>
     /\ sub[i][3] = PP.numax
     /\ sub[i][2] \in DOMAIN PP.rho /\ Abs(sub[i][4] - PP.rho[sub[i][2]]) <= 2
GpoRhoDistinct == \A i, j \in DOMAIN PP.rho : i # j => PP.rho[i] # PP.rho[j]

GpoStep(e) ==
  LET N == PP.N  half == PP.half IN
  CASE e.k = "pull" ->
         LET r  == Gp!Pull(N, half, G)
             po == AddPids(pidOf, e.sub)
         IN [G |-> r.G, po |-> po,
             err |-> IF Proj(e.sub) # r.sub THEN "gpo.schedule" ELSE "ok",
             soft |-> IF ~GpoRhoOK(e.sub) THEN "gpo.rho"
                      ELSE IF ~(e.pid \in {PidOfPt(po, pt) : pt \in r.ret}) THEN (IF Gp!Finished(N, G) THEN "gpo.final" ELSE "gpo.point")
                      ELSE "ok"]
    [] e.k = "recv" ->
         LET r == Gp!Receive(N, half, G, e.r) IN
         [G |-> r.G, po |-> pidOf,
          err |-> IF Proj(e.sub) # r.sub THEN "gpo.schedule" ELSE "ok",
          soft |-> IF Len(e.V) # Len(r.G.vr) THEN "gpo.score-count"
                   ELSE IF ~(\A i \in DOMAIN r.G.vr : Len(r.G.vr[i]) > 0 => ScoreOK(e.V[i], Gp!Sum(r.G.vr[i]), Len(r.G.vr[i]))) THEN "gpo.score"
                   ELSE "ok"]
    [] e.k = "glp" ->
         [G |-> G, po |-> pidOf,
          err |-> "ok",
          soft |-> IF Gp!Finished(N, G) /\ ~(e.pid \in {PidOfPt(pidOf, pt) : pt \in Gp!GLPRet(N, G)}) THEN "gpo.final" ELSE "ok"]

-----------------------------------------------------------------------------
PooRhoOK(Gn, sub) ==
  \A i \in DOMAIN sub : sub[i][1] = "new" =>
     LET g == Gn.grid[sub[i][2]]  k == Po!Log2(g[1]) IN
     /\ sub[i][3] = PP.numax
     /\ (k \in DOMAIN PP.rho /\ g[2] + 1 \in DOMAIN PP.rho[k]) => Abs(sub[i][4] - PP.rho[k][g[2] + 1]) <= 2

PooScores(Gn, e) ==
  IF Len(e.V) # Len(Gn.lr) \/ Len(e.Times) # Len(Gn.lr) THEN "poo.learner-count"
  ELSE IF ~(\A i \in DOMAIN Gn.lr : e.Times[i] = Len(Gn.lr[i])) THEN "poo.times"
  ELSE IF ~(\A i \in DOMAIN Gn.lr : IF Gn.lr[i] = <<>> THEN e.V[i] = 0 ELSE ScoreOK(e.V[i], Po!Sum(Gn.lr[i]), Len(Gn.lr[i]))) THEN "poo.score"
  ELSE "ok"

PooStep(e) ==
  LET thr == [k \in 0 .. Len(PP.thr) - 1 |-> PP.thr[k + 1]] IN
  CASE e.k = "pull" ->
         LET r == Po!Pull(thr, G) IN
         [G |-> r.G, po |-> pidOf,
          err |-> IF ~Po!Starts(thr) /\ G = Po!PInit THEN "poo.not-started"
                  ELSE IF Proj(e.sub) # r.sub THEN "poo.route"
                  ELSE "ok",
          soft |-> IF (~Po!Starts(thr) /\ G = Po!PInit) \/ Proj(e.sub) # r.sub THEN "ok"
                   ELSE IF ~PooRhoOK(r.G, e.sub) THEN "poo.rho"
                   ELSE IF e.pid # e.sub[Len(e.sub)][3] THEN "poo.point"
                   ELSE "ok"]
    [] e.k = "recv" ->
         LET r == Po!Receive(thr, G, e.r) IN
         [G |-> r.G, po |-> pidOf,
          err |-> IF Proj(e.sub) # r.sub THEN "poo.route" ELSE "ok",
          soft |-> IF Proj(e.sub) # r.sub THEN "ok" ELSE PooScores(r.G, e)]
    [] e.k = "glp" ->
         [G |-> G, po |-> pidOf,
          err |-> "ok",
          soft |-> IF ~(Len(e.sub) = 1 /\ e.sub[1][1] = "pull" /\ e.sub[1][2] \in Po!GLPWho(G) /\ e.pid = e.sub[1][3]) THEN "poo.glp"
                   ELSE PooScores(G, e)]

-----------------------------------------------------------------------------
Step ==
  /\ ~done /\ err = "ok" /\ l <= Len(Ev)
  /\ LET e == Ev[l] IN
     IF e.k = "init0"
     THEN /\ G' = IF IsGPO THEN Gp!GInit ELSE Po!PInit
          /\ err' = IF PP.amb = 1 THEN "machinery.ambiguous-constants"
                    ELSE IF IsGPO /\ (PP.N < 1 \/ PP.half < 1) THEN "gpo.undefined-schedule"
                    ELSE IF IsGPO /\ ~GpoRhoDistinct THEN "gpo.rho"
                    ELSE "ok"
          /\ ph' = "told" /\ UNCHANGED <<pidOf, soft>>
     ELSE IF e.k = "end" THEN UNCHANGED <<G, pidOf, ph, err, soft>>
     ELSE LET f == CallFail(e)
              okproto == CASE e.k = "pull" -> ph = "told" [] e.k = "recv" -> ph = "asked" [] OTHER -> TRUE    \* a query may come between pull and receive_reward
          IN IF ~okproto THEN err' = "protocol" /\ UNCHANGED <<G, pidOf, ph, soft>>
             ELSE IF f # "ok" THEN err' = f /\ UNCHANGED <<G, pidOf, ph, soft>>
             ELSE LET r == IF IsGPO THEN GpoStep(e) ELSE PooStep(e) IN
                  /\ err' = r.err /\ soft' = AddSoft(soft, r.soft, l)
                  /\ G' = r.G /\ pidOf' = r.po
                  /\ ph' = IF e.k = "pull" THEN "asked" ELSE IF e.k = "recv" THEN "told" ELSE ph
  /\ l' = l + 1 /\ UNCHANGED <<tid, done>>

Finish ==
  /\ ~done /\ (err # "ok" \/ l > Len(Ev))
  /\ PrintT(<<"VERDICT", Tr.id, err, l - 1, 0, SoftString(soft)>>)
  /\ done' = TRUE /\ UNCHANGED <<tid, l, G, pidOf, ph, err, soft>>

Next == Step \/ Finish
Spec == Init /\ [][Next]_vars

\* the specification's own invariants, evaluated on every state of every accepted trace prefix
InvGpo == (IsGPO /\ ph # "new" /\ err = "ok") => (Gp!LearnersOK(PP.N, PP.half, G) /\ Gp!ValidationOK(PP.N, PP.half, G))
InvPoo == (~IsGPO /\ ph = "told" /\ err = "ok") => (Po!GridDistinct(G) /\ Po!GridBelowRhomax(G) /\ Po!RoutingOK(G) /\ G.n % G.N = 0)
=============================================================================
