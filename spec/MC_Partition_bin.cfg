SPECIFICATION Spec
CONSTANTS
  Kind = "bin"
  KK = 2
  DD = 2
  W = 8
  MaxCells = 9
  MaxDepth = 3
  EmitJson = FALSE
INVARIANT InvStruct
INVARIANT InvTiled
INVARIANT InvLeavesTile
INVARIANT InvInsideRoot
INVARIANT InvEqualWidths
INVARIANT InvArity
INVARIANT Emit
PROPERTY StepProp
CHECK_DEADLOCK FALSE
