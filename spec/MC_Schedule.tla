---------------------------- MODULE MC_Schedule ----------------------------
(***************************************************************************)
(* Schedules for C14 / C15, enumerated (or simulated) by TLC.               *)
(*  Mode "two":   two independent sessions A and B, each the documented     *)
(*                loop pull ; receive_reward for R rounds; every            *)
(*                interleaving of their operations.                         *)
(*  Mode "query": one session of R rounds with 0..Q get_last_point calls    *)
(*                inserted after each round.                                *)
(* The session abstraction is the protocol automaton of Trace_Session.      *)
(***************************************************************************)
EXTENDS Naturals, Sequences, TLC, Json

CONSTANTS Mode, R, Q
VARIABLES a, b, hist
vars == <<a, b, hist>>
Fresh == [ph |-> "told", rounds |-> 0]
Init == a = Fresh /\ b = Fresh /\ hist = <<>>

Op(s) == IF s.ph = "told" THEN [s EXCEPT !.ph = "asked"] ELSE [ph |-> "told", rounds |-> s.rounds + 1]
CanOp(s) == s.ph = "asked" \/ s.rounds < R

StepA == CanOp(a) /\ a' = Op(a) /\ hist' = Append(hist, "A") /\ UNCHANGED b
StepB == Mode = "two" /\ CanOp(b) /\ b' = Op(b) /\ hist' = Append(hist, "B") /\ UNCHANGED a
RECURSIVE TrailingQ(_)
TrailingQ(h) == IF h = <<>> \/ h[Len(h)] # "Q" THEN 0 ELSE 1 + TrailingQ(SubSeq(h, 1, Len(h) - 1))
\* a recommendation query between rounds (session A only)
Query == /\ Mode = "query" /\ a.ph = "told" /\ a.rounds > 0
         /\ TrailingQ(hist) < Q
         /\ hist' = Append(hist, "Q") /\ UNCHANGED <<a, b>>
Next == StepA \/ StepB \/ Query
Spec == Init /\ [][Next]_vars

\* the protocol automaton never asks twice or tells twice in a row (per session)
InvProtocol == a.rounds <= R /\ b.rounds <= R
Terminal == ~CanOp(a) /\ (Mode = "two" => ~CanOp(b))
Emit == Terminal => PrintT(<<"BEHAVIOUR", ToJson(hist)>>)
=============================================================================
