------------------------------ MODULE MC_POO ------------------------------
(* Exhaustive model of the POO schedule: every threshold oracle (thr[k] =   *)
(* M[k] * 2^k with M[k] drawn from Mults, first branch a creation branch),  *)
(* every reward sequence over Rewards up to R rounds.  Carries the running  *)
(* mean *as coded* (exact rationals) to show it equals the true mean.       *)
EXTENDS POO
CONSTANTS Mults, KMax, Rewards, R
VARIABLES G, thr, mode, rounds, coded, times
vars == <<G, thr, mode, rounds, coded, times>>

RECURSIVE Gcd(_, _)
Gcd(a, b) == IF b = 0 THEN a ELSE Gcd(b, a % b)
Abs(x) == IF x < 0 THEN -x ELSE x
Norm(q) == LET g == Gcd(Abs(q[1]), q[2]) IN IF g = 0 THEN q ELSE <<q[1] \div g, q[2] \div g>>
\* (v*k + r)/(k+1) on rationals
RunMean(v, k, r) == Norm(<<v[1] * k + r * v[2], v[2] * (k + 1)>>)

Init == /\ \E M \in [2 .. KMax -> Mults] : thr = [k \in 0 .. KMax |-> IF k = 0 THEN 0 ELSE IF k = 1 THEN 2 ELSE M[k] * 2 ^ k]
        /\ G = PInit /\ mode = "told" /\ rounds = 0 /\ coded = <<>> /\ times = <<>>
DoPull == /\ mode = "told" /\ rounds < R /\ G.N <= 2 ^ KMax
          /\ LET r == Pull(thr, G) IN
             /\ G' = r.G
             /\ coded' = IF Len(r.G.lp) > Len(G.lp) THEN Append(coded, <<0, 1>>) ELSE coded
             /\ times' = IF Len(r.G.lp) > Len(G.lp) THEN Append(times, 0) ELSE times
          /\ mode' = "asked" /\ UNCHANGED <<thr, rounds>>
DoRecv == /\ mode = "asked"
          /\ \E r \in Rewards :
               LET res == Receive(thr, G, r)  i == res.who
                   k == IF Cr(thr, G.N, G.n) THEN G.counter ELSE G.n \div G.N      \* what the code uses as the prior count
               IN /\ G' = res.G
                  /\ coded' = [coded EXCEPT ![i] = RunMean(@, k, r)]
                  /\ times' = [times EXCEPT ![i] = @ + 1]
          /\ mode' = "told" /\ rounds' = rounds + 1 /\ UNCHANGED thr
Next == DoPull \/ DoRecv
Spec == Init /\ [][Next]_vars

InvSchedule == mode = "told" => ScheduleOK(thr, G)
InvGrid     == GridDistinct(G) /\ GridBelowRhomax(G)
InvRouting  == RoutingOK(G) /\ (mode = "asked" => G.asked \in DOMAIN G.lp)
\* C10 crux: the coded running mean (which uses n/N in place of the learner's own count) is the true mean
InvCodedMean == \A i \in DOMAIN coded :
                   /\ times[i] = Len(G.lr[i])
                   /\ G.lr[i] # <<>> => coded[i][1] * Len(G.lr[i]) = Sum(G.lr[i]) * coded[i][2]
\* exactly one learner serves a round and the reward goes to that same learner, no other changes
StepProp == [][ (mode = "asked" /\ mode' = "told") =>
                  \E i \in DOMAIN G.lr : /\ i = G.asked /\ Len(G'.lr[i]) = Len(G.lr[i]) + 1
                                         /\ \A j \in DOMAIN G.lr : j # i => G'.lr[j] = G.lr[j] ]_vars
LearnersOnlyAdded == [][Len(G'.lp) >= Len(G.lp) /\ \A i \in DOMAIN G.grid : G'.grid[i] = G.grid[i]]_vars
=============================================================================
