------------------------------ MODULE MC_Stro ------------------------------
(* Exhaustive model of StroquOOL as implemented, for consecutive time       *)
(* labels: every reward sequence over P.rewards up to P.R rounds and every  *)
(* tie-break (which of several best qualifying cells is opened, which of    *)
(* several best cells becomes the candidate of a slot, which of several     *)
(* best candidates is recommended).  One action per branch of pull().       *)
EXTENDS StroquOOL, Json, IOUtils
P == JsonDeserialize(IOEnv.MC_PARAMS)
K == Arity(P)
HM == P.hmax
PM == Log2Floor(HM)
VARIABLES T, f, z, chosen, cand, ended, vstart, mode, askedc, hist, reused
vars == <<T, f, z, chosen, cand, ended, vstart, mode, askedc, hist, reused>>
NoBox == <<>>
Fresh == <<0, 0, 0, 0, <<0, 0>>>>
Init == /\ T = RootTree(NoBox) /\ f = <<Fresh>> /\ z = ZInit /\ chosen = <<>> /\ cand = <<>> /\ ended = FALSE /\ vstart = 0
        /\ mode = "told" /\ askedc = 0 /\ hist = <<>> /\ reused = {}
CanPull == mode = "told" /\ Len(hist) < P.R

\* hand out kid z.k of the cell being opened and advance the schedule (root and opening phases)
Serve(T1, f1, z1) ==
  LET want == T1.kids[z1.m][z1.k]
      c1 == z1.c + 1
      fin == c1 >= Quota(HM, z1)
      z2 == IF fin THEN AfterKid(HM, [z1 EXCEPT !.fresh = FALSE]) ELSE [z1 EXCEPT !.c = c1, !.fresh = FALSE]
      f2 == IF fin /\ z1.k = 2 /\ z1.ph = "open" THEN [f1 EXCEPT ![z1.m][4] = 1] ELSE f1
  IN /\ askedc' = want /\ z' = z2 /\ f' = f2
Expand(T0, f0, m) ==
  LET T1 == MkB(P, T0, m, [j \in 1 .. K |-> NoBox])
      f1 == f0 \o [j \in 1 .. K |-> Fresh]
  IN <<T1, f1>>

PullOpenRoot ==
  /\ CanPull /\ z.ph = "root" /\ z.fresh
  /\ LET e == Expand(T, f, 1) IN
       /\ T' = e[1] /\ chosen' = <<e[1].kids[1][1], e[1].kids[1][2]>> /\ Serve(e[1], e[2], z)
  /\ mode' = "asked" /\ UNCHANGED <<cand, ended, vstart, hist, reused>>
PullOpen ==        \* a scan that finds a cell to open
  /\ CanPull /\ z.ph = "open" /\ z.fresh /\ Qualifying(T, f, z.d, z.p) # {}
  /\ \E m \in OpenChoices(T, f, z.d, z.p) :
       LET e == Expand(T, Scan(T, f, z.d, z.p), m) IN
       /\ T' = e[1] /\ chosen' = chosen \o <<e[1].kids[m][1], e[1].kids[m][2]>> /\ Serve(e[1], e[2], [z EXCEPT !.m = m])
  /\ mode' = "asked" /\ UNCHANGED <<cand, ended, vstart, hist, reused>>
PullReuse ==       \* a scan that finds nothing: the cell opened last is evaluated again (unreachable if the quotas are right)
  /\ CanPull /\ z.ph = "open" /\ z.fresh /\ Qualifying(T, f, z.d, z.p) = {}
  /\ Serve(T, f, z)
  /\ reused' = reused \cup {z.m}      \* history variable: cells whose children are served beyond their quota
  /\ mode' = "asked" /\ UNCHANGED <<T, chosen, cand, ended, vstart, hist>>
PullServe ==       \* next evaluation of the cell being opened
  /\ CanPull /\ z.ph \in {"root", "open"} /\ ~z.fresh
  /\ Serve(T, f, z)
  /\ mode' = "asked" /\ UNCHANGED <<T, chosen, cand, ended, vstart, hist, reused>>
ServeVal(cd, f1) ==
  LET c1 == z.c + 1 IN
  /\ askedc' = cd[z.slot + 1] /\ f' = f1
  /\ z' = IF c1 >= HM THEN (IF z.slot + 1 > PM THEN [z EXCEPT !.ph = "end", !.fresh = FALSE] ELSE [z EXCEPT !.slot = @ + 1, !.c = 0, !.fresh = FALSE])
          ELSE [z EXCEPT !.c = c1, !.fresh = FALSE]
PullValStart ==    \* the candidates are fixed and their reward lists restarted
  /\ CanPull /\ z.ph = "val" /\ z.fresh
  /\ \E cd \in [1 .. PM + 1 -> SeqRange(chosen)] :
       /\ \A q \in 1 .. PM + 1 : cd[q] \in CandChoices(f, chosen, q - 1)
       /\ cand' = cd /\ ServeVal(cd, RestartAll(f, SeqRange(cd)))
  /\ vstart' = Len(hist) /\ mode' = "asked" /\ UNCHANGED <<T, chosen, ended, hist, reused>>
PullVal ==
  /\ CanPull /\ z.ph = "val" /\ ~z.fresh
  /\ ServeVal(cand, f)
  /\ mode' = "asked" /\ UNCHANGED <<T, chosen, cand, ended, vstart, hist, reused>>
PullEnded ==       \* the schedule is over: the recommendation is handed out and rewards are ignored from now on
  /\ CanPull /\ z.ph = "end"
  /\ \E c \in RecBest(f, SeqRange(cand)) : askedc' = c
  /\ ended' = TRUE /\ mode' = "asked" /\ UNCHANGED <<T, f, z, chosen, cand, vstart, hist, reused>>
\* reward alphabet of round t: P.rewards, or (to reach long runs with few sequences) the periodic pattern P.alph
Alph(t) == IF "alph" \in DOMAIN P THEN P.alph[((t - 1) % Len(P.alph)) + 1] ELSE P.rewards
Receive ==
  /\ mode = "asked"
  /\ \E r \in SeqRange(Alph(Len(hist) + 1)) :
       /\ f' = IF ended THEN f ELSE [f EXCEPT ![askedc] = <<@[1] + 1, @[2] + 1, @[3] + r, @[4], @[5]>>]
       /\ hist' = Append(hist, <<askedc, r, IF ended THEN 0 ELSE 1>>)
  /\ mode' = "told" /\ UNCHANGED <<T, z, chosen, cand, ended, vstart, askedc, reused>>
Next == PullOpenRoot \/ PullOpen \/ PullReuse \/ PullServe \/ PullValStart \/ PullVal \/ PullEnded \/ Receive
Spec == Init /\ [][Next]_vars

\* ---- C04: the evidence of a cell is the fold of the history, with the one sanctioned restart ----
Idx(c, from) == {i \in DOMAIN hist : i > from /\ hist[i][1] = c /\ hist[i][3] = 1}
RECURSIVE SumOver(_)
SumOver(I) == IF I = {} THEN 0 ELSE LET i == CHOOSE j \in I : TRUE IN hist[i][2] + SumOver(I \ {i})
Start(c) == IF c \in SeqRange(cand) THEN vstart ELSE 0
InvHistory == \A c \in Cells(T) : /\ Cnt(f, c) = Cardinality(Idx(c, 0))
                                  /\ Nrw(f, c) = Cardinality(Idx(c, Start(c)))
                                  /\ Sum(f, c) = SumOver(Idx(c, Start(c)))
InvTotal == mode = "told" => Cardinality({i \in DOMAIN hist : hist[i][3] = 1}) = FoldLeft(LAMBDA a, c : a + Cnt(f, c), 0, [c \in 1 .. T.n |-> c])
\* ---- C07 ----
InvRec == (cand # <<>> /\ \E c \in SeqRange(cand) : Nrw(f, c) > 0) => RecBest(f, SeqRange(cand)) # {}
\* ---- the schedule ----
InvCands == cand # <<>> => /\ Len(cand) = PM + 1
                           /\ \A q \in 1 .. PM + 1 : cand[q] \in SeqRange(chosen) /\ Cnt(f, cand[q]) >= 2 ^ (q - 1)
InvDepth == T.pdepth <= HM + 1
InvStruct == StructOK(P, T)
\* both evaluated children of an opened cell of depth d received the same power-of-two quota, at most hmax/d,
\* up to the validation phase (which adds to the candidates) -- except below a cell that PullReuse served again: when a
\* depth holds fewer unopened cells than the schedule wants to open (h_max >= 4 on binary trees: 4 openings wanted at
\* depth 1, 2 cells exist) the implementation evaluates the children of the cell opened last once more
InvQuota == (cand = <<>> /\ mode = "told") => \A c \in Cells(T) \ reused : f[c][4] = 1 =>
               LET a == Cnt(f, T.kids[c][1])  b == Cnt(f, T.kids[c][2]) IN
               /\ a = b /\ \E e \in 0 .. 30 : a = 2 ^ e /\ a * T.dep[c] <= HM
InvOpenedOnce == \A c \in Cells(T) : (~IsLeaf(T, c) /\ f[c][4] = 0) => (c = 1 \/ c = z.m)
InvOnlyTwoKidsUsed == \A c \in Cells(T) : Cnt(f, c) > 0 => \E p \in Cells(T) : ~IsLeaf(T, p) /\ c \in {T.kids[p][1], T.kids[p][2]}
InvCost == (z.ph = "end" /\ mode = "told" /\ ~ended) => Len(hist) = TotalCost(HM)
ASSUME WithinBudget == P.n > 0 => TotalCost(HM) <= P.n      \* P.n: a budget whose h_max is HM
StepEnded == [][ended => (f' = f /\ T' = T /\ z' = z /\ cand' = cand)]_vars
StepShrink == [][\A c \in DOMAIN f : Nrw(f', c) < Nrw(f, c) => (cand = <<>> /\ cand' # <<>> /\ c \in SeqRange(cand') /\ Cnt(f', c) = Cnt(f, c))]_vars
StepOpenBest == [][T'.n > T.n => LET m == CHOOSE c \in Cells(T) : IsLeaf(T, c) /\ ~IsLeaf(T', c) IN
                     (m = 1 /\ T.n = 1) \/ (f[m][4] = 0 /\ T.dep[m] = z.d /\ Cnt(f, m) >= 2 ^ z.p
                                             /\ \A e \in Qualifying(T, f, z.d, z.p) : MeanGeqAll(f, m, e))]_vars
Emit == (P.emit = 1 /\ mode = "told" /\ Len(hist) = P.R) => PrintT(<<"BEHAVIOUR", ToJson(hist)>>)
=============================================================================
