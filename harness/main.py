# -*- coding: utf-8 -*-
import argparse
import importlib
import os
import sys
import traceback

from . import common as C


def main():
    ap = argparse.ArgumentParser()
    ap.add_argument("prop")
    ap.add_argument("--tier", default=os.environ.get("VERIF_TIER", "quick"), choices=["quick", "thorough"])
    ap.add_argument("--replay", default=None)
    a = ap.parse_args()
    try:
        C.assert_repo_import()
        if a.replay:
            from . import replay
            sys.exit(replay.run(a.prop, a.replay))
        mod = importlib.import_module("harness.checks." + a.prop.lower())
        rc = mod.run(a.tier)
        sys.exit(rc)
    except C.Machinery as e:
        print("MACHINERY-FAILURE: %s" % e)
        sys.exit(2)
    except SystemExit:
        raise
    except Exception:
        traceback.print_exc()
        print("MACHINERY-FAILURE: unexpected exception")
        sys.exit(2)


if __name__ == "__main__":
    main()
