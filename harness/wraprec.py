# -*- coding: utf-8 -*-
"""Recorder for the wrappers POO / GPO / PCT / VPCT: the base-learner class handed to the wrapper
is replaced by a recording subclass with the same __name__, so constructions, pulls and rewards
seen by the learners are observed without touching the library."""
import copy
import random
import traceback
import warnings

import numpy as np

from . import algos as A
from . import recorder as R
from . import consts as K


class Sink:
    def __init__(self, S, RU):
        self.S, self.RU = S, RU
        self.learners = []
        self.cur = []
        self.pids = {}
        self.depth = 0
        self.compose = False
        self.wrapper_call = None
        self.rounds = 0
        self.kind, self.K, self.D = "bin", 2, 1

    def num(self, obj):
        for i, o in enumerate(self.learners):
            if o is obj:
                return i + 1
        return 0

    def pid(self, pt, create=True):
        try:
            key = tuple(float(v) for v in pt)
        except Exception:
            return 0
        if key not in self.pids:
            if not create:
                return 0
            self.pids[key] = len(self.pids) + 1
        return self.pids[key]

    def rcode(self, r):
        v = r * self.RU
        try:
            if v == int(v) and abs(v) < 10 ** 8:
                return int(v)
        except Exception:
            pass
        return R.NANC


def _learner_rec(obj, base, k, sink):
    """composition: the learner's own tree and evidence are recorded like a stand-alone T_HOO / HCT / VHCT session"""
    from . import tbsession as TB
    name = base.__name__
    cfg = {"algo": name, "n": sink.rounds, "T": sink.rounds, "RU": sink.RU, "prm": {"nu": k.get("nu", 1), "rho": k.get("rho", 0.5)}}
    try:
        tabs = TB.tables(cfg)
    except Exception:
        tabs = None
    if tabs is None or tabs.get("amb"):
        return None
    P = {"kind": sink.kind, "K": sink.K, "D": sink.D, "metric": "rank", "arity": A.arity(sink.kind, sink.K, sink.D), "algo": TB.SPEC_NAME[name], "tol": 5, "tolv": 6}
    P.update({a: b for a, b in tabs.items() if a != "amb"})
    P["under"] = 1
    return R.SessionRec(obj, P, extractor=TB.extractor(tabs["S"], tabs["RU"], name == "VHCT"), tid=0, call_timeout=60)


def recording(base, sink):
    class Rec(base):
        def __init__(self, *a, **k):
            base.__init__(self, *a, **k)
            sink.learners.append(self)
            # every numeric constructor argument is part of the observation (two runs that differ only in time labels or
            # queries must create their learners with the same arguments); flat integer codes, -1 = not passed
            sink.cur.append(["new", len(sink.learners), R.fx(k.get("nu", -1), sink.S), R.fx(k.get("rho", -1), sink.S)]
                            + [R.fx(k[x], 1 << 10) if isinstance(k.get(x), (int, float)) else -1 for x in ("rounds", "c", "delta", "bound")])
            self._lrec = _learner_rec(self, base, k, sink) if sink.compose else None

        def _via(self, kind, fn, ev):
            lr = self._lrec
            out = lr._call(kind, fn, ev)
            if kind != "recv" and "exc" not in ev and "hang" not in ev:
                lr._point(ev, out)
            lr.events.append(ev)
            if lr.last_exc is not None:
                e, lr.last_exc = lr.last_exc, None
                raise e
            return out

        def pull(self, time):
            sink.depth += 1
            try:
                if sink.depth == 1 and self._lrec is not None and not self._lrec.failed:
                    kind = "glp" if sink.wrapper_call == "glp" else "pull"
                    pt = self._via(kind, lambda: base.pull(self, time), {"k": kind, "t": int(time)})
                else:
                    pt = base.pull(self, time)
            finally:
                sink.depth -= 1
            if sink.depth == 0:
                sink.cur.append(["pull", sink.num(self), sink.pid(pt)])
            return pt

        def receive_reward(self, time, reward):
            if self._lrec is not None and not self._lrec.failed:
                self._via("recv", lambda: base.receive_reward(self, time, reward), {"k": "recv", "t": int(time), "r": sink.rcode(reward)})
            else:
                base.receive_reward(self, time, reward)
            sink.cur.append(["recv", sink.num(self), sink.rcode(reward)])

    Rec.__name__ = base.__name__
    Rec.__qualname__ = base.__qualname__
    return Rec


def run_wrap(cfg):
    try:
        return _run(cfg)
    except Exception:
        return {"id": cfg["id"], "machinery": traceback.format_exc()}


def _scores(algo, name, S):
    g = algo.algorithm if name in ("PCT", "VPCT") else algo
    out = {"V": [R.fx(v, S) for v in list(g.V_reward)]}
    if name == "POO":
        out["Times"] = [R.capint(v) for v in list(g.Times)]
    return out


def _run(cfg):
    warnings.simplefilter("ignore")
    np.seterr(all="ignore")
    np.random.seed(cfg["seed"] % (2 ** 32))
    name = cfg["algo"]
    D = cfg["D"]
    RU = cfg.get("RU", 4)
    SV = 1 << 16  # scale of logged scores
    SR = 1 << 20  # scale of logged rho / nu
    box = [list(map(float, b)) for b in cfg["box"]]
    dom = [list(b) for b in box]
    part = A.partition_class(cfg["kind"], cfg["K"])
    n, T = cfg["n"], cfg.get("T", cfg["n"])
    prm = cfg.get("prm", {})
    rhomax, numax = prm.get("rhomax", 0.9), prm.get("numax", 1)
    sink = Sink(SR, RU)
    sink.compose = bool(cfg.get("compose"))
    sink.rounds, sink.kind, sink.K, sink.D = n, cfg["kind"], cfg["K"], D
    basename = {"PCT": "HCT", "VPCT": "VHCT"}.get(name, prm.get("base", "T_HOO"))
    rec_cls = recording(A.BASE_ALGOS[basename], sink)
    P = {"kind": cfg["kind"], "K": cfg["K"], "D": D, "algo": name, "arity": A.arity(cfg["kind"], cfg["K"], D), "RU": RU, "SV": SV, "numax": R.fx(numax, SR)}
    if name == "POO":
        c = K.poo_consts(rhomax)
        P.update({"thr": c["thr"], "rho": c["rho"], "amb": 1 if c["amb"] else 0})
    else:
        c = K.gpo_consts(n, rhomax)
        P.update({"N": c["N"], "half": c["half"], "rho": c["rho"], "amb": 1 if c["amb"] else 0})
    import PyXAB.algos.PCT as MP
    import PyXAB.algos.VPCT as MV
    saved = (MP.HCT, MV.VHCT)
    try:
        if name == "PCT":
            MP.HCT = rec_cls
        if name == "VPCT":
            MV.VHCT = rec_cls
        algo = A.build(name, part, dom, n, prm, base_cls=rec_cls)
    finally:
        MP.HCT, MV.VHCT = saved
    rec = R.SessionRec(algo, P, tid=cfg["id"], call_timeout=cfg.get("timeout", 30), tree=False)
    rnd = random.Random(cfg["seed"] + 5)
    pat = cfg.get("pattern", "g")
    t0 = cfg.get("t0", 1)
    queries = set(cfg.get("queries", ()))
    midq = set(cfg.get("midq", ()))

    def reward(pt):
        if pat == "g":
            return rnd.randint(-RU, 3 * RU) / RU
        if pat == "neg":
            return -rnd.randint(0, 2 * RU) / RU
        if pat == "tied":
            return rnd.choice([0.0, 0.5, 0.5, 1.0])
        if pat == "const":
            return 0.25
        if pat == "negrun":       # negative rewards with runs of exact zeros: a score that is exactly 0 and the best (a value mistaken for "empty")
            st = reward.__dict__.setdefault("run", [0, False])
            if st[0] <= 0:
                st[0], st[1] = rnd.randint(5, 45), not st[1]
            st[0] -= 1
            return 0.0 if st[1] else -rnd.randint(1, 2 * RU) / RU
        if pat == "decay":        # rewards fall with time: an early validation outscores every later one of the same point
            reward.t = getattr(reward, "t", 0) + 1
            return round((1.0 - reward.t / float(T + 1)) * 2 * RU) / RU
        rel = [int((pt[x] - box[x][0]) / (box[x][1] - box[x][0]) * (1 << 30)) for x in range(D)]
        return A.peak_reward(rel, rnd, RU)

    def call(kind, fn, **extra):
        sink.cur = []
        sink.wrapper_call = kind
        before = len(rec.events)
        res = fn()
        ev = rec.events[-1]
        ev["sub"] = sink.cur
        if kind in ("pull", "glp") and ev.get("ptok") == 1:
            ev["pid"] = sink.pid(res, create=False)
        if not rec.failed and kind in ("recv", "glp"):
            ev.update(_scores(algo, name, SV))
        return res

    for i in range(T):
        pt = call("pull", lambda: rec.pull(t0 + i))
        if rec.failed:
            break
        r = reward(pt)
        if i in midq:
            call("glp", lambda: rec.glp())
            if rec.failed:
                break
        call("recv", lambda: rec.recv(t0 + i, R.cast_reward(r, cfg.get("rtype")), rcode=sink.rcode(r)))
        if rec.failed:
            break
        if i in queries:
            call("glp", lambda: rec.glp())
            if rec.failed:
                break
    if not rec.failed:
        call("glp", lambda: rec.glp())
    tr = rec.finalize(extra_boxes=[tuple((b[0], b[1]) for b in box)])
    tr["cfg"] = {"algo": name, "kind": cfg["kind"], "K": cfg["K"], "D": D, "n": n, "T": T, "seed": cfg["seed"], "pattern": pat, "prm": {k: v for k, v in prm.items() if isinstance(v, (int, float, str))}, "box": cfg["box"]}
    tr["learners"] = len(sink.learners)
    if sink.compose:
        lts = []
        for j, lo in enumerate(sink.learners):
            lr = getattr(lo, "_lrec", None)
            if lr is None:
                continue
            lr.tid = cfg["id"] * 100 + j + 1
            lt = lr.finalize(extra_boxes=[tuple((b[0], b[1]) for b in box)])
            lt["cfg"] = dict(tr["cfg"], learner=j + 1, under=name, algo=basename)
            lts.append(lt)
        tr["learner_traces"] = lts
    return tr
