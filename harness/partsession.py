# -*- coding: utf-8 -*-
"""Direct make_children / deepen sessions on the five partition classes.

Two modes:
  * replay of a TLC behaviour (spec -> code): NumPy's global generator functions are scripted so
    that the partition's random draws follow the behaviour; coordinates are exact lattice
    integers (optionally mapped through an exact dyadic affine map);
  * random sessions (code -> spec): float boxes, seeded or end-point-forcing generator, random
    expansion orders; coordinates rank coded.
"""
import copy
import math
import random
import traceback

import numpy as np

from PyXAB.partition.Node import P_node

from . import algos as A
from . import recorder as R


class Script:
    """scripted replacement for np.random.randint / np.random.uniform"""

    def __init__(self):
        self.q = []
        self.underrun = 0

    def randint(self, low, high=None, *a, **k):
        if not self.q:
            self.underrun += 1
            return 0
        kind, v = self.q.pop(0)
        if kind != "i":
            self.underrun += 1
        return int(v)

    def uniform(self, low=0.0, high=1.0, size=None, *a, **k):
        if size is not None:      # vectorised draw: the next `size` scripted values
            n = int(np.prod(size))
            return np.array([self.uniform(low, high) for _ in range(n)]).reshape(size)
        if not self.q:
            self.underrun += 1
            return low
        kind, v = self.q.pop(0)
        if kind != "u":
            self.underrun += 1
        if isinstance(v, tuple):  # ("frac", f): position relative to the call's own interval
            return low + (high - low) * v[1] if v[0] == "frac" else (low if v[0] == "lo" else high)
        return float(v)


class patched_rng:
    def __init__(self, script):
        self.s = script

    def __enter__(self):
        self.o = (np.random.randint, np.random.uniform)
        np.random.randint = self.s.randint
        np.random.uniform = self.s.uniform
        return self.s

    def __exit__(self, *a):
        np.random.randint, np.random.uniform = self.o


def _feed(script, kind, K, D, dim, cuts, amap):
    if kind == "dbin":
        return
    script.q.append(("i", dim - 1))
    if kind == "rbin":
        script.q.append(("u", amap(cuts[1])))
    elif kind == "rkary":
        for j in range(1, K):
            script.q.append(("u", amap(cuts[j])))


def run_part(cfg):
    try:
        return _run(cfg)
    except Exception:
        return {"id": cfg["id"], "machinery": traceback.format_exc()}


class _Stop(Exception):
    """the partition itself raised: the wrapped make_children has logged the event (field exc); the session ends"""


def _guard(fn, *a, **k):
    try:
        return fn(*a, **k)
    except R.Hang:
        raise
    except Exception:
        raise _Stop()


def _run(cfg):
    kind, K, D = cfg["kind"], cfg["K"], cfg["D"]
    ar = A.arity(kind, K, D)
    P = {"kind": kind, "K": K, "D": D, "metric": cfg.get("metric", "rank"), "arity": ar, "algo": "partition"}
    box = [list(map(float, b)) for b in cfg["box"]]
    dom = [list(b) for b in box]
    if cfg.get("alias_dom") and all(b == box[0] for b in box):
        dom = [dom[0]] * D                    # [[lo, hi]] * d
    before = copy.deepcopy(dom)
    cls = A.partition_class(kind, K)
    part = cls(domain=dom, node=P_node)
    events = []
    tree = R.TreeRec(part, ar, events)
    events.append(tree.init_event)
    scale, shift = cfg.get("amap", (1.0, 0.0))
    amap = lambda v: shift + scale * v
    stopped = [False]
    if "ops" in cfg:  # replay of a TLC behaviour
        script = Script()
        ops = cfg["ops"]
        with patched_rng(script):
            i = 0
            while i < len(ops) and not stopped[0]:
              try:
                  op = ops[i]
                  if op["op"] == "deepen":
                      cnt = len(part.get_node_list()[part.get_depth()])
                      sub = ops[i + 1 : i + 1 + cnt]
                      for o in sub:
                          _feed(script, kind, K, D, o.get("dim", 1), o["cuts"], amap)
                      n0 = len(events)
                      _guard(part.deepen)
                      for e, o in zip(events[n0:], sub):
                          e["want"] = [o.get("dim", 1), list(o["cuts"])]
                          e["wantp"] = o["p"]
                      i += 1 + cnt
                  else:
                      if op["p"] > len(tree.nodes):
                          # the implementation has produced fewer cells than the behaviour: it has already left the
                          # behaviour (the trace spec rejects the deviating event); nothing more can be replayed
                          events.append({"k": "diverged", "p": op["p"]})
                          break
                      _feed(script, kind, K, D, op.get("dim", 1), op["cuts"], amap)
                      node = tree.nodes[op["p"] - 1]
                      n0 = len(events)
                      _guard(part.make_children, node, newlayer=bool(op["nl"]))
                      for e in events[n0:]:
                          e["want"] = [op.get("dim", 1), list(op["cuts"])]
                          e["wantp"] = op["p"]
                      i += 1
              except _Stop:
                stopped[0] = True
        if (script.underrun or script.q) and not stopped[0] and not any(e.get("k") == "diverged" for e in events):
            events.append({"k": "script", "underrun": script.underrun, "left": len(script.q)})
    else:  # random session
        rnd = random.Random(cfg["seed"])
        np.random.seed(cfg["seed"] % (2 ** 32))
        force = cfg.get("force_endpoints", 0.0)
        script = None
        nops = cfg.get("nops", 12)
        maxcells = cfg.get("maxcells", 400)

        class Forcing(Script):
            def __init__(s):
                super().__init__()
                s.o_randint, s.o_uniform = np.random.randint, np.random.uniform

            def randint(s, *a, **k):
                return s.o_randint(*a, **k)

            def uniform(s, low=0.0, high=1.0, *a, **k):
                u = rnd.random()
                if u < force / 2:
                    return low
                if u < force:
                    return high
                return s.o_uniform(low, high, *a, **k)

        ctx = patched_rng(Forcing()) if force > 0 else None
        if ctx:
            ctx.__enter__()
        try:
            if cfg.get("chain"):
                # one deep chain: always split the first / the last child of the previous split (labels grow to
                # arity^depth, cells shrink to the resolution of the floats)
                node = part.get_root()
                for _ in range(cfg["chain_depth"]):
                    _guard(part.make_children, node, newlayer=(node.get_depth() >= part.get_depth()))
                    node = node.get_children()[0 if cfg["chain"] == "first" else -1]
                nops = 0
            for _ in range(nops):
                if len(tree.nodes) >= maxcells:
                    break
                if rnd.random() < cfg.get("p_deepen", 0.25) and len(part.get_node_list()[part.get_depth()]) * ar + len(tree.nodes) <= maxcells:
                    _guard(part.deepen)
                else:
                    leaves = [n for n in tree.nodes if n.get_children() is None]
                    # prefer reachable leaves: walk from the root
                    node = rnd.choice(leaves)
                    _guard(part.make_children, node, newlayer=(node.get_depth() >= part.get_depth()))
        except _Stop:
            stopped[0] = True
        finally:
            if ctx:
                ctx.__exit__()
    fin = {"k": "final"}
    tree.scan(fin)
    events.append(fin)
    events.append({"k": "end", "dom_same": 1 if before == dom else 0})
    # encode with SessionRec's encoder
    enc = R.SessionRec.__new__(R.SessionRec)
    enc.events = events
    enc.d = D
    enc.P = P
    enc.tid = cfg["id"]
    enc.tree = tree
    if P["metric"] == "lattice":
        tr = finalize_lattice(enc, box, scale, shift)
    else:
        tr = enc.finalize(extra_boxes=[tuple((b[0], b[1]) for b in box)])
    tr["cfg"] = {k: cfg[k] for k in ("kind", "K", "D", "box", "seed", "amap", "force_endpoints") if k in cfg}
    tr["cfg"]["algo"] = "partition"
    return tr


def finalize_lattice(enc, box, scale, shift):
    """exact integer coordinates: v -> (v - shift)/scale must be an integer (else 0, which no spec
    clause accepts); centres are logged doubled so that midpoints of odd-width cells stay integers"""
    def back(v):
        u = (v - shift) / scale
        if u != int(u) or abs(u) > 10 ** 8:
            return None
        return int(u)

    def back2(v):  # doubled coordinate
        u = (v - shift) / scale * 2
        if u != int(u) or abs(u) > 10 ** 8:
            return None
        return int(u)

    OFF = 1000  # shift so that all codes are >= 1
    d = enc.d

    def enc_cell(c):
        b, cp = c["box"], c["cpt"]
        bb = []
        ok = True
        for x in range(d):
            lo, hi = back(b[x][0]), back(b[x][1])
            if lo is None or hi is None:
                ok = False
                bb.append([0, 0])
            else:
                bb.append([lo + OFF, hi + OFF])
        relc, cc = [], []
        for x in range(d):
            c2 = back2(cp[x])
            if c2 is None or not ok:
                relc.append(-1)
                cc.append(0)
            else:
                relc.append(R.REL // 2 if c2 == (bb[x][0] + bb[x][1] - 2 * OFF) else -1)
                cc.append(bb[x][0])
        # cpt code must satisfy lo <= cpt <= hi in the order clause; the exact statement is relc
        relw = []
        pb = c["pbox"]
        for x in range(d):
            if pb is None:
                relw.append(-2)
            else:
                pw = pb[x][1] - pb[x][0]
                w = b[x][1] - b[x][0]
                relw.append(int(round(w / pw * R.REL)) if pw > 0 else -2)
        Kw = 2 if enc.P["kind"] in ("bin", "dbin", "rbin") else enc.P["K"]
        cdev = [0 if r == R.REL // 2 else 1000 for r in relc]
        wdev = []
        for x in range(d):
            if pb is None:
                wdev.append(0)
            else:
                pw = pb[x][1] - pb[x][0]
                w = b[x][1] - b[x][0]
                wdev.append(0 if w * Kw == pw else 1000)
        return {"id": c["id"], "par": c["par"], "dep": c["dep"], "idx": c["idx"], "box": bb, "cpt": cc, "relc": relc, "relw": relw, "cdev": cdev, "wdev": wdev, "hw2": 0}

    out = []
    for ev in enc.events:
        e = dict(ev)
        if e["k"] == "init":
            e["cells"] = [enc_cell(c) for c in ev["cells"]]
        if "new" in e:
            e["new"] = [enc_cell(c) for c in ev["new"]]
        if "want" in e:
            e["want"] = [e["want"][0], [c + OFF for c in e["want"][1]]]
        out.append(e)
    return {"id": enc.tid, "P": enc.P, "ev": out, "xbox": [[[back(b[0]) + OFF, back(b[1]) + OFF] for b in box]]}
