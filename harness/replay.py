# -*- coding: utf-8 -*-
"""./check <id> --replay <path>: re-validate one saved trace (or show a saved model-checking counterexample)."""
import json
import os

from . import common as C


def run(prop, path):
    if not os.path.exists(path):
        raise C.Machinery("no such replay file: " + path)
    if path.endswith(".txt"):
        print(open(path).read()[-6000:])
        print("VIOLATION property=%s replay=%s (saved TLC counterexample)" % (prop, path))
        return 1
    d = json.load(open(path))
    tr = d["trace"]
    wd = C.rundir("replay_" + prop)
    verdicts, st, ds, cmd = C.validate_traces(d["module"], d["cfg"], [tr], wd, "replay")
    v = verdicts[tr["id"]]
    clause, line, n = v[:3]
    if len(v) > 3:
        # soft clauses met on the way (the walk continued): the recorded one counts if it is among them
        want = (d.get("verdict") or [""])[0]
        for a in v[3].split("|"):
            nm, _, at = a.partition("@")
            if nm == want and clause != want:
                clause, line = want, int(at) if at else line
    print("trace %s: verdict %s at event %d (recorded: %s)" % (tr["id"], clause, line, d.get("verdict")))
    if clause != "ok":
        ev = tr.get("ev") or tr.get("a")
        if ev and 0 < line <= len(ev):
            print("event:", json.dumps(ev[line - 1])[:1500])
        print("cfg:", json.dumps(tr.get("cfg"))[:600])
        print("VIOLATION property=%s replay=%s" % (prop, path))
        return 1
    print("OK (the saved trace is accepted by the current specification)")
    return 0
