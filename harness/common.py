# -*- coding: utf-8 -*-
"""Shared plumbing: paths, TLC runner, verdict parsing, evidence, known findings."""
import json
import os
import re
import shutil
import subprocess
import sys
import time

VERIF = os.path.dirname(os.path.dirname(os.path.abspath(__file__)))
SPEC = os.path.join(VERIF, "spec")
# VERIF_REPO / VERIF_SCRATCH are for the seeded-change runner only (a patched scratch worktree, separate scratch
# and evidence directories so that it can run beside the registered checks); the registered checks use /repo.
REPO = os.environ.get("VERIF_REPO", "/repo")
_SCR = os.environ.get("VERIF_SCRATCH", "")
OUT = os.path.join(VERIF, "out", _SCR) if _SCR else os.path.join(VERIF, "out")
EVID = os.path.join(OUT, "evidence") if _SCR else os.path.join(VERIF, "evidence")
JAR = "/opt/veriftools/tla/tla2tools.jar:/opt/veriftools/tla/CommunityModules-deps.jar"
NCPU = os.cpu_count() or 4


class Machinery(Exception):
    """the verification machinery itself failed (exit code 2, never a verdict)"""


def seed():
    try:
        return int(os.environ.get("VERIF_SEED", "20260928"))
    except ValueError:
        return 20260928


def assert_repo_import():
    import PyXAB

    f = os.path.realpath(PyXAB.__file__)
    if not f.startswith(REPO + "/"):
        raise Machinery("PyXAB imported from %s, not from /repo" % f)


def rundir(name):
    d = os.path.join(OUT, name)
    shutil.rmtree(d, ignore_errors=True)
    os.makedirs(d, exist_ok=True)
    return d


_STATS = re.compile(r"(\d+) states generated, (\d+) distinct states found")


class TlcResult:
    def __init__(self):
        self.stdout = ""
        self.generated = 0
        self.distinct = 0
        self.ok = False
        self.violation = None  # text of an invariant/property violation
        self.tuples = []  # parsed PrintT tuples (raw strings)
        self.wall = 0.0
        self.cmd = ""
        self.coverage = {}


def split_tuples(text, head):
    """extract every <<"head", ...>> printed with PrintT, tolerant of interleaved worker output"""
    out = []
    pat = re.compile(r'<<\s*"%s"' % re.escape(head))
    i = 0
    while True:
        m0 = pat.search(text, i)
        if not m0:
            break
        i = m0.start()
        depth = 0
        j = i
        instr = False
        while j < len(text):
            c = text[j]
            if instr:
                if c == "\\":
                    j += 1
                elif c == '"':
                    instr = False
            elif c == '"':
                instr = True
            elif text.startswith("<<", j):
                depth += 1
                j += 1
            elif text.startswith(">>", j):
                depth -= 1
                j += 1
                if depth == 0:
                    break
            j += 1
        out.append(text[i : j + 1])
        i = j + 1
    return out


def parse_verdict(tup):
    """<<"VERDICT", id, "clause", line, n>> -> (id, clause, line, n)"""
    m = re.match(r'<<\s*"VERDICT",\s*(-?\d+),\s*"([^"]*)",\s*(-?\d+)(?:,\s*(-?\d+))?(?:,\s*"([^"]*)")?(?:,\s*(-?\d+))?\s*', tup.replace("\n", " "))
    if not m:
        raise Machinery("unparsable verdict %r" % tup[:200])
    # secondary (soft) clauses met on the way: "clause" or "clause@event", separated by "|"
    also = "|".join(x for x in (m.group(5) or "").split("|") if x and x != "ok" and not x.startswith("ok@")) or None
    if also is not None and m.group(6) and "@" not in also:
        also = also + "@" + m.group(6)      # event at which the (first) secondary clause was met
    return int(m.group(1)), m.group(2), int(m.group(3)), int(m.group(4) or 0), also


def run_tlc(module, cfg, workdir, env=None, workers=None, timeout=3000, extra=(), simulate=None, heap="8g", dfs=False):
    """run TLC on spec/<module>.tla with spec/<cfg>; returns TlcResult.  Raises Machinery on a TLC crash."""
    res = TlcResult()
    meta = os.path.join(workdir, "meta_%s_%d" % (os.path.basename(cfg).replace(".", "_"), int(time.time() * 1000) % 100000000))
    jopts = ["-XX:+UseParallelGC", "-Xmx" + heap, "-Xss64m"]
    if dfs:
        jopts.append("-Dtlc2.tool.queue.IStateQueue=StateDeque")
    cmd = ["java"] + jopts + ["-cp", JAR, "tlc2.TLC", "-workers", str(workers or min(NCPU, 8)), "-metadir", meta, "-noGenerateSpecTE", "-config", cfg]
    if simulate:
        cmd += ["-simulate", simulate]
    cmd += list(extra) + [module]
    e = dict(os.environ)
    if env:
        e.update(env)
    t0 = time.time()
    try:
        p = subprocess.run(cmd, cwd=SPEC, env=e, stdout=subprocess.PIPE, stderr=subprocess.STDOUT, timeout=timeout, text=True)
    except subprocess.TimeoutExpired as ex:
        raise Machinery("TLC timed out after %ss: %s" % (timeout, " ".join(cmd)))
    res.wall = time.time() - t0
    res.stdout = p.stdout
    res.cmd = " ".join(cmd)
    shutil.rmtree(meta, ignore_errors=True)
    m = None
    for m in _STATS.finditer(p.stdout):
        pass
    if m:
        res.generated, res.distinct = int(m.group(1)), int(m.group(2))
    out = p.stdout
    if "Invariant " in out and " is violated" in out:
        res.violation = re.search(r"Invariant (\S+) is violated", out).group(1)
    elif "Action property" in out and "is violated" in out:
        res.violation = re.search(r"Action property (\S+)", out).group(1)
    elif "Temporal properties were violated" in out:
        res.violation = "temporal"
    elif "Model checking completed. No error has been found." in out or (simulate and p.returncode == 0):
        res.ok = True
    elif simulate and ("Simulation" in out or "simulation" in out) and "Error:" not in out:
        res.ok = True
    else:
        with open(os.path.join(workdir, "tlc_failure.log"), "w") as f:
            f.write(res.cmd + "\n" + out)
        raise Machinery("TLC failed (rc=%s) on %s/%s; log in %s\n%s" % (p.returncode, module, cfg, os.path.join(workdir, "tlc_failure.log"), out[-3000:]))
    return res


def tlc_coverage(stdout):
    """per-action counts from -coverage output: {action: (distinct, total)}"""
    cov = {}
    for m in re.finditer(r"<(\w+) line \d+, col \d+ to line \d+, col \d+ of module (\w+)>: (\d+):(\d+)", stdout):
        cov[m.group(1)] = (int(m.group(3)), int(m.group(4)))
    return cov


# ---------------------------------------------------------------------------
# batch trace validation
def validate_traces(module, cfg, traces, workdir, name, workers=None, chunk=400, timeout=3000):
    """validate traces (list of dicts with unique int 'id') with spec/<module>.tla.
    Returns (verdicts {id: (clause, line, n)}, states, distinct, tlc_cmd)"""
    verdicts = {}
    states = distinct = 0
    cmd = ""
    for ci in range(0, len(traces), chunk):
        part = traces[ci : ci + chunk]
        path = os.path.join(workdir, "%s_%03d.json" % (name, ci // chunk))
        with open(path, "w") as f:
            json.dump(part, f, separators=(",", ":"))
        r = run_tlc(module, cfg, workdir, env={"TRACE_FILE": path}, workers=workers, timeout=timeout)
        cmd = r.cmd
        if r.violation:
            raise Machinery("trace spec %s: invariant %s violated while validating %s (an invariant of the trace spec failed on an accepted prefix)\n%s" % (module, r.violation, path, r.stdout[-2500:]))
        states += r.generated
        distinct += r.distinct
        got = {}
        for t in split_tuples(r.stdout, "VERDICT"):
            i, clause, line, n, also = parse_verdict(t)
            got[i] = (clause, line, n) if also is None else (clause, line, n, also)
        for tr in part:
            if tr["id"] not in got:
                raise Machinery("no verdict for trace %s in %s" % (tr["id"], path))
        verdicts.update(got)
    return verdicts, states, distinct, cmd


# ---------------------------------------------------------------------------
# known findings
def load_known():
    p = os.path.join(VERIF, "known_findings.json")
    if not os.path.exists(p):
        return {"findings": [], "fixed": []}
    with open(p) as f:
        return json.load(f)


def match_known(prop, sig):
    """sig: dict describing the failure; a finding matches if all its 'match' keys agree"""
    for k in load_known().get("findings", []):
        if k["property"] != prop:
            continue
        if all(sig.get(a) == b for a, b in k["match"].items()):
            return k
    return None


# ---------------------------------------------------------------------------
# evidence
def write_evidence(prop, tier, level, coverage, wall, violations, assumptions):
    os.makedirs(EVID, exist_ok=True)
    ev = {
        "property_id": prop,
        "tier": tier,
        "seed": seed(),
        "level": level,
        "coverage": coverage,
        "assumptions": assumptions,
        "wall_s": round(wall, 2),
        "violations": violations,
    }
    path = os.path.join(EVID, prop + ".json")
    tmp = path + ".tmp"
    with open(tmp, "w") as f:
        json.dump(ev, f, indent=1, sort_keys=True)
    os.replace(tmp, path)
    return path


def save_replay(workdir, prop, name, obj):
    d = os.path.join(OUT, "replay")
    os.makedirs(d, exist_ok=True)
    p = os.path.join(d, "%s_%s.json" % (prop, name))
    with open(p, "w") as f:
        json.dump(obj, f)
    return p
