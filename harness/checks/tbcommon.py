# -*- coding: utf-8 -*-
"""Sources shared by C04 / C05 / C06 (and C15): exhaustive TreeBandit models, replay of their
behaviours into T_HOO / HCT / VHCT, random grid-mode sessions validated by Trace_TreeBandit."""
import json
import math
import os
import random

from .. import common as C
from .. import consts as K
from .. import framework as F
from .. import session as S
from .. import tbsession as TB
from .. import algos as A
from . import partcommon as PC

# parameter sets for the exhaustive models: thresholds small and growing across epochs within R
MODEL_PRM = {
    "THOO": [dict(nu=0.5, rho=0.6, rounds=20), dict(nu=1, rho=0.5, rounds=50)],
    "HCT": [dict(nu=1, rho=0.5, c=0.42, delta=0.358), dict(nu=1, rho=0.6, c=0.31, delta=0.29)],
    "VHCT": [dict(nu=1, rho=0.5, c=0.42, delta=0.358, bound=1)],
}
IMPL = {"THOO": "T_HOO", "HCT": "HCT", "VHCT": "VHCT"}
ALL_INVS = {
    "C04": ["InvCounts", "InvHistory", "InvTHOOTree"],
    "C05": ["InvBLaw", "InvFresh", "InvEndIsStop"],
    "C06": ["InvSplits", "InvDepth", "InvStruct"],
}


def model_params(algo, prm, R, rewards, K_=2, emit=0, RU=2):
    t = K.tb_consts(algo, RU=RU, maxcnt=R + 4, rmax=max(1, max(abs(r) for r in rewards) / RU), **prm)
    if t is None or t["amb"]:
        raise C.Machinery("model parameters unrepresentable: %s %s" % (algo, prm))
    P = {"kind": "kary", "K": K_, "D": 1, "metric": "rank", "algo": algo, "rewards": rewards, "R": R, "emit": emit, "tauy": [[0]]}
    P.update({k: v for k, v in t.items() if k != "amb"})
    return P


def run_model(chk, algo, prm, R, rewards, invs, label, K_=2, emit=0, props=("StepGrowth",), coverage=True):
    P = model_params(algo, prm, R, rewards, K_, emit)
    pj = os.path.join(chk.wd, "params_%s.json" % label)
    with open(pj, "w") as f:
        json.dump(P, f)
    cfg = chk.write_cfg("tb_" + label, None, invariants=invs + (["Emit"] if emit else []), properties=list(props))
    os.environ["MC_PARAMS"] = pj
    try:
        r = chk.mc("MC_TreeBandit.tla", cfg, label, coverage=coverage, count=not emit)
    finally:
        os.environ.pop("MC_PARAMS", None)
    return r, P


def models(chk, prop, tier, algos=("THOO", "HCT", "VHCT")):
    invs = ALL_INVS[prop]
    cov = {}
    for algo in algos:
        for j, prm in enumerate(MODEL_PRM[algo][: (1 if tier == "quick" else 2)]):
            R = {"THOO": 6, "HCT": 7, "VHCT": 6}[algo] if tier == "quick" else {"THOO": 8, "HCT": 9, "VHCT": 8}[algo]
            label = "%s_%d_R%d" % (algo, j, R)
            r, P = run_model(chk, algo, prm, R, [0, 2], invs, label)
            cov[label] = chk.mc_runs[-1].get("action_coverage", {})
        if tier != "quick" and algo != "VHCT":
            label = "%s_K3" % algo
            run_model(chk, algo, MODEL_PRM[algo][0], 6, [0, 1, 2], invs, label, K_=3)
    chk.exhaustive = True
    # vacuity guard: the interesting branch must have been exercised
    for label, c in cov.items():
        if label.startswith("HCT") and c.get("DoPullInternal", 0) == 0:
            raise C.Machinery("model %s never stops at an internal cell: thresholds do not grow within R" % label)
        if c and c.get("DoRecvGrow", 0) == 0:
            raise C.Machinery("model %s never expands" % label)
    return cov


def replay_cfgs(chk, tier, base_id):
    """behaviours of small models -> one implementation run per distinct reward sequence"""
    cfgs = []
    expected = {}
    i = base_id
    for algo in ("THOO", "HCT", "VHCT"):
        prm = MODEL_PRM[algo][0]
        R = 5 if tier == "quick" else 7
        label = "emit_%s" % algo
        r, P = run_model(chk, algo, prm, R, [0, 2], [], label, emit=1, props=(), coverage=False)
        beh = F.parse_behaviours(r.stdout)
        if not beh:
            raise C.Machinery("no behaviour emitted for " + label)
        byrew = {}
        for h in beh:
            key = tuple(x[1] for x in h)
            byrew.setdefault(key, set()).add(tuple((x[0], x[2]) for x in h))
        chk.notes.setdefault("behaviours_enumerated", {})[label] = len(beh)
        if len(chk.samples) < 3:
            chk.sample({"tlc_behaviour(end cell, reward units, grew)": beh[0], "model": label, "params": prm})
        for key, bset in sorted(byrew.items()):
            i += 1
            p2 = dict(prm)
            n = p2.pop("rounds", 64)
            cfgs.append({"id": i, "algo": IMPL[algo], "kind": "bin", "K": 2, "D": 1, "box": [[0.0, 1.0]], "n": n, "T": len(key), "prm": p2, "rewards": list(key), "RU": 2, "seed": 1,
                         "tabs": {k: v for k, v in P.items() if k in ("S", "RU", "nurho", "w2", "dbound", "c2l", "tau", "c2ls", "b3", "vmin", "nb", "tauy", "sexp")}})
            expected[i] = bset
    return cfgs, expected


def observed_behaviour(tr):
    """(end cell, grew) per round from an encoded trace (binary partition: one candidate per point)"""
    out = []
    grew = 0
    cell = None
    for e in tr["ev"]:
        if e["k"] == "pull":
            cell = e.get("cands", [0])[0] if e.get("cands") else 0
            grew = 0
        elif e["k"] == "mk":
            grew = 1
        elif e["k"] == "recv":
            out.append((cell, grew))
    return tuple(out)


def draw_prm(rnd, algo):
    p = {"nu": rnd.choice([1, 1, round(rnd.uniform(0.2, 4), 3), round(rnd.uniform(0.02, 0.2), 3)]), "rho": rnd.choice([0.5, 0.5, 0.25, round(rnd.uniform(0.3, 0.8), 3)])}
    if algo in ("HCT", "VHCT"):
        p["c"] = rnd.choice([0.1, round(math.exp(rnd.uniform(math.log(0.03), math.log(0.6))), 4)])
        p["delta"] = rnd.choice([0.01, round(math.exp(rnd.uniform(math.log(0.001), math.log(0.3))), 5), rnd.choice([1e-8, 1e-13, 1e-16, 1e-20])])     # also very high confidence levels
    if algo == "VHCT":
        p["bound"] = rnd.choice([1, 0.5, 2])
    return p


def random_cfgs(tier, base_id, algos=("T_HOO", "HCT", "VHCT"), queries=False, seedoff=0):
    rnd = random.Random(C.seed() + 61 + seedoff)
    cfgs = []
    i = base_id
    reps = 8 if tier == "quick" else 60
    for algo in algos:
        for rep in range(reps):
            kind, Kk = rnd.choice(A.PART_KINDS)
            D = rnd.choice([1, 1, 2]) if kind != "dbin" else rnd.choice([1, 2])
            box = rnd.choice([b for b in PC.BOXES if len(b) == D])
            n = rnd.choice([64, 100, 128, 200, 256]) if tier == "quick" else rnd.choice([64, 100, 128, 256, 400, 512])
            for _ in range(50):
                prm = draw_prm(rnd, algo)
                cfg = {"algo": algo, "n": n, "T": n, "prm": prm}
                t = TB.tables(cfg)
                if t is not None and not t["amb"]:
                    break
            else:
                raise C.Machinery("no representable parameter draw")
            i += 1
            q = sorted(rnd.sample(range(n), 4)) if queries or rep % 4 == 0 else []
            cfgs.append({"id": i, "algo": algo, "kind": kind, "K": Kk, "D": D, "box": box, "n": n, "T": n, "prm": prm, "pattern": rnd.choice(["g01", "bern", "peak", "peak", "tied", "const", "flat", "spike", "spike"]), "seed": rnd.randrange(1 << 30), "queries": q, "midq": sorted(rnd.sample(range(n), 3)) if rep % 4 == 2 else [], "rtype": [None, "f32", "f64", "i64", "int", None][rep % 6]})
    # rewards on a far-away scale (roff + grid value): statistics computed by cancellation-prone one-pass formulas go wrong
    # here while count, mean and list stay right; the tree bandits are equivariant under a translation of the rewards
    for algo in algos:
        for roff in ((1e7, -1e8) if tier == "quick" else (1e6, 1e7, -1e8, 3e9, -2.0 ** 27)):
            n = rnd.choice([100, 128, 200])
            for _ in range(50):
                prm = draw_prm(rnd, algo)
                t = TB.tables({"algo": algo, "n": n, "T": n, "prm": prm})
                if t is not None and not t["amb"]:
                    break
            else:
                raise C.Machinery("no representable parameter draw")
            i += 1
            kind, Kk = rnd.choice([("bin", 2), ("kary", 3), ("dbin", 2)])
            cfgs.append({"id": i, "algo": algo, "kind": kind, "K": Kk, "D": 1, "box": [[0.0, 1.0]], "n": n, "T": n, "prm": prm, "pattern": rnd.choice(["g01", "bern", "peak", "spike"]), "seed": rnd.randrange(1 << 30),
                         "queries": [], "roff": roff, "rtype": rnd.choice([None, "f64"])})
    # runs that cross the refresh rounds 512 (and 1024): delta~ is recomputed when the counter *equals* a power of two
    for algo in algos:
        if algo not in ("HCT", "VHCT"):
            continue
        for T in ((530,) if tier == "quick" else (530, 1040, 600)):
            ru = 8 if algo == "VHCT" and T > 900 else None      # second moments of > 900 pulls need the coarser reward grid to stay in 31 bits
            for _ in range(50):
                prm = draw_prm(rnd, algo)
                t = TB.tables(dict({"algo": algo, "n": T, "T": T, "prm": prm}, **({"RU": ru} if ru else {})))
                if t is not None and not t["amb"]:
                    break
            else:
                raise C.Machinery("no representable parameter draw")
            i += 1
            cfgs.append(dict({"id": i, "algo": algo, "kind": rnd.choice(["bin", "kary"]), "K": 3, "D": 1, "box": [[0.0, 1.0]], "n": T, "T": T, "prm": prm, "pattern": rnd.choice(["g01", "peak", "flat"]), "seed": rnd.randrange(1 << 30), "queries": []}, **({"RU": ru} if ru else {})))
    # a cell that is pulled more than a thousand times (small nu: thresholds far above the run length)
    if "VHCT" in algos or "HCT" in algos:
        for algo in [a for a in ("VHCT", "HCT") if a in algos][: (1 if tier == "quick" else 2)]:
            prm = {"nu": 0.1, "rho": 0.5, "c": 1.0, "delta": 0.01}
            if algo == "VHCT":
                prm["bound"] = 1
            T = 2400
            t = TB.tables({"algo": algo, "n": T, "T": T, "prm": prm, "RU": 8})
            if t is None or t["amb"]:
                raise C.Machinery("long-run parameters not representable")
            i += 1
            cfgs.append({"id": i, "algo": algo, "kind": "bin", "K": 2, "D": 1, "box": [[0.0, 1.0]], "n": T, "T": T, "prm": prm, "pattern": "bern", "seed": rnd.randrange(1 << 30), "queries": [], "RU": 8})     # 0/1 rewards: large variance, VHCT's thresholds stay high
    # nu sqrt(n) exactly a power of 1/rho: the published depth bound of T-HOO is an integer -- the place where a
    # differently rounded evaluation of the same formula, or int()+1 for ceil(), goes wrong
    if "T_HOO" in algos:
        # (only exactly representable rho: for rho = 0.1 the float is 0.1000000000000000055..., the exact value of the
        # formula on that float is 1 + 2.4e-17 while the library's float evaluation gives 1.0 -- there is no sound
        # reference in that zone, it stays "ambiguous" and is not driven)
        for (prm, n) in [({"nu": 1, "rho": 0.5}, 256), ({"nu": 1, "rho": 0.25}, 256), ({"nu": 2, "rho": 0.5}, 64), ({"nu": 0.5, "rho": 0.125}, 256), ({"nu": 0.08, "rho": 0.5}, 100),
                         # a negative depth bound (nu sqrt(n) < rho): the root is still split once at construction and nothing else ever is
                         ({"nu": 0.02, "rho": 0.5}, 100), ({"nu": 0.03, "rho": 0.8}, 64)]:
            t = TB.tables({"algo": "T_HOO", "n": n, "T": n, "prm": prm})
            if t is None or t["amb"]:
                raise C.Machinery("boundary parameters not representable: %s" % prm)
            i += 1
            kind, Kk = rnd.choice([("bin", 2), ("kary", 3), ("rbin", 2)])
            cfgs.append({"id": i, "algo": "T_HOO", "kind": kind, "K": Kk, "D": 1, "box": [[0.0, 1.0]], "n": n, "T": n, "prm": prm, "pattern": rnd.choice(["g01", "peak", "bern"]), "seed": rnd.randrange(1 << 30), "queries": []})
    return cfgs


def nontrivial(tr):
    cells = set()
    for e in tr["ev"]:
        if e["k"] == "pull":
            cells.update(e.get("cands", []))
    return F.count_mk(tr) >= 1 and len(cells) >= 2


def full_check(prop, tier, own, rule, explanation, extra=None):
    chk = F.Check(prop, tier)
    cov = models(chk, prop, tier)
    chk.notes["model_action_coverage"] = cov
    cfgs, expected = replay_cfgs(chk, tier, 1100000)
    trs = S.pmap(TB.run_tb, cfgs)
    trs = [t for t in trs if "skipped" not in t]
    v = chk.validate("Trace_TreeBandit.tla", "Trace_TreeBandit.cfg", trs, "replay", own=own, nontrivial=nontrivial)
    agree = sum(1 for t in trs if observed_behaviour(t) in expected[t["id"]])
    chk.notes["replay"] = {"reward_sequences": len(trs), "implementation_run_is_literally_one_of_the_enumerated_behaviours": agree,
                           "not_literally_enumerated_but_accepted_by_trace_validation(fixed-point near ties)": sum(1 for t in trs if observed_behaviour(t) not in expected[t["id"]] and v[t["id"]][0] == "ok")}
    cfgs = random_cfgs(tier, 1200000)
    trs = [t for t in S.pmap(TB.run_tb, cfgs, procs=3) if "skipped" not in t]     # 3 workers: instances with different parameters follow each other in one process
    chk.validate("Trace_TreeBandit.tla", "Trace_TreeBandit.cfg", trs, "grid", own=own, nontrivial=nontrivial)
    chk.sample({"cfg": trs[0]["cfg"], "events": trs[0]["ev"][1:5]})
    # composition: the base learners created by POO / GPO / PCT / VPCT are themselves T_HOO / HCT / VHCT machines;
    # each learner's tree and evidence are recorded and validated like a stand-alone session
    from .. import wraprec as W
    from . import wrapcommon as WC
    wc = (WC.gpo_cfgs(tier, 1250000)[: (4 if tier == "quick" else 30)] + WC.poo_cfgs(tier, 1260000)[: (4 if tier == "quick" else 30)])
    lts = []
    for w in S.pmap(W.run_wrap, [dict(c, compose=True, n=min(c["n"], 300), T=min(c["T"], 300)) for c in wc]):
        if "machinery" in w:
            raise C.Machinery(w["machinery"])
        lts += w.get("learner_traces", [])
    for j, lt in enumerate(lts):
        lt["id"] = 1270000 + j
    chk.validate("Trace_TreeBandit.tla", "Trace_TreeBandit.cfg", lts, "learners", own=own, chunk=80, nontrivial=lambda t: len(t["ev"]) > 10)
    chk.notes["composed_learner_traces"] = len(lts)
    if extra:
        extra(chk)
    chk.assumptions = ["grid rewards (multiples of 1/RU) so that sums are exact; fixed point S = 2^9..2^13, Tol = 5 units for the index formula; decisions are checked exactly on the observed codes", "constant tables from harness/consts.py (published formulas, 60-digit decimals); delta~ < 1/2 so the two min() variants in the code coincide"]
    return chk.finish(rule=rule, explanation=explanation)
