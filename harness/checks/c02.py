# -*- coding: utf-8 -*-
"""C02 - child cells exactly tile their parent."""
from .. import common as C
from .. import framework as F
from .. import partsession as PS
from .. import session as S
from . import partcommon as PC


def sig(tr, clause, line):
    return {"kindclass": tr["P"]["kind"], "algo": tr["P"].get("algo", "partition")}


def run(tier):
    chk = F.Check("C02", tier)
    PC.model_runs(chk, "C02", tier)
    rp = PC.behaviours(chk, tier, 40 if tier == "quick" else 400)
    trs = S.pmap(PS.run_part, rp)
    chk.validate("Trace_Session.tla", "Trace_Session.cfg", trs, "replay", sigfn=sig, nontrivial=lambda t: F.count_mk(t) >= 2)
    chk.notes["replayed_behaviours"] = len(trs)
    cfgs = PC.random_part_cfgs(tier, base_id=210000)
    trs = S.pmap(PS.run_part, cfgs)
    chk.validate("Trace_Session.tla", "Trace_Session.cfg", trs, "direct", sigfn=sig, nontrivial=lambda t: F.count_mk(t) >= 3)
    chk.sample({"direct_session_trace_excerpt": trs[-1]["ev"][:2], "cfg": trs[-1]["cfg"]})
    trs = S.pmap(S.run_session, PC.algo_cfgs(tier, base_id=310000, n=100 if tier == "quick" else 200))
    chk.validate("Trace_Session.tla", "Trace_Session.cfg", trs, "algos", sigfn=sig, nontrivial=lambda t: F.count_mk(t) >= 3)
    chk.assumptions = ["metric clauses (centre, equal widths) on arbitrary floats are checked on relative positions logged in 2^-20 units; they are exact on the lattice replays", "cells narrower than 8 ulp are exempt from the midpoint clause (the midpoint is not representable)"]
    return chk.finish(
        rule="MC: lattice models of the 5 classes with every split dimension and every admissible cut vector (end points included), pointwise tiling over unit cells; replay on lattice boxes and exact affine images; TV on float boxes with rank-coded coordinates (order/equality exact).  Non-trivial = accepted trace with >= 2-3 expansions; distinct encoded event sequences.",
        explanation="Tiling(P, parent, kids) of spec/PartitionTree.tla on every split: outer faces equal the parent's, neighbours share one boundary value, other dimensions untouched; dbin: the 2^d children are exactly the product of the per-dimension halves; arity; centre; equal widths; cut law of the class.",
    )
