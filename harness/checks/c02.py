# -*- coding: utf-8 -*-
"""C02 - child cells exactly tile their parent."""
import os

from .. import common as C
from .. import framework as F
from .. import partsession as PS
from .. import session as S
from . import partcommon as PC


def sig(tr, clause, line):
    return {"kindclass": tr["P"]["kind"], "algo": tr["P"].get("algo", "partition")}


def apalache(chk, D, K, init, inv):
    """one symbolic obligation (all integer boxes / cuts / points): True = no counterexample"""
    import os, subprocess, time
    cfg = os.path.join(chk.wd, "apa_%d_%d.cfg" % (D, K))
    with open(cfg, "w") as f:
        f.write("CONSTANTS\n D = %d\n K = %d\nINIT %s\nNEXT Next\nINVARIANT %s\n" % (D, K, init, inv))
    cmd = ["apalache-mc", "check", "--config=" + cfg, "--init=" + init, "--inv=" + inv, "--length=0", "--out-dir=" + os.path.join(chk.wd, "apa"), "APA_Tiling.tla"]
    t = time.time()
    p = subprocess.run(cmd, cwd=os.path.join(C.SPEC, "apalache"), stdout=subprocess.PIPE, stderr=subprocess.STDOUT, text=True, timeout=900)
    if "The outcome is: NoError" in p.stdout:
        return True, time.time() - t, " ".join(cmd)
    if "The outcome is: Error" in p.stdout and "invariant" in p.stdout:
        return False, time.time() - t, " ".join(cmd)
    raise C.Machinery("apalache failed: " + p.stdout[-1500:])


def symbolic(chk, tier):
    slabs = [(1, 2), (2, 3)] if tier == "quick" else [(1, 2), (2, 2), (3, 2), (1, 3), (2, 3), (3, 3), (2, 4), (3, 5)]
    orths = [2] if tier == "quick" else [1, 2, 3]
    done = []
    for (D, K) in slabs:
        ok, dt, cmd = apalache(chk, D, K, "InitSlab", "InvSlab")
        done.append({"obligation": "slab D=%d K=%d" % (D, K), "discharged": ok, "s": round(dt, 1)})
        if not ok:
            chk.violations.append(({"source": "apalache", "obligation": "slab D=%d K=%d" % (D, K)}, os.path.join(chk.wd, "apa")))
    for D in orths:
        ok, dt, cmd = apalache(chk, D, 2, "InitOrth", "InvOrth")
        done.append({"obligation": "orthants D=%d" % D, "discharged": ok, "s": round(dt, 1)})
        if not ok:
            chk.violations.append(({"source": "apalache", "obligation": "orthants D=%d" % D}, os.path.join(chk.wd, "apa")))
    ok, dt, cmd = apalache(chk, 2, 3, "InitSlabBroken", "InvSlab")
    if ok:
        raise C.Machinery("negative control (last cut not pinned to the parent's bound) was not refuted by Apalache")
    chk.notes["symbolic_obligations_apalache"] = {"obligations": done, "negative_control_refuted": True, "cmd": cmd}


def run(tier):
    chk = F.Check("C02", tier)
    PC.model_runs(chk, "C02", tier)
    symbolic(chk, tier)
    rp = PC.behaviours(chk, tier, 40 if tier == "quick" else 400)
    trs = S.pmap(PS.run_part, rp)
    chk.notes["replays_that_consumed_the_scripted_draws_differently"] = sum(1 for t in trs if any(e.get("k") == "script" for e in t.get("ev", [])))
    chk.validate("Trace_Session.tla", "Trace_Session.cfg", trs, "replay", sigfn=sig, nontrivial=lambda t: F.count_mk(t) >= 2)
    chk.notes["replayed_behaviours"] = len(trs)
    cfgs = PC.random_part_cfgs(tier, base_id=210000)
    trs = S.pmap(PS.run_part, cfgs)
    chk.validate("Trace_Session.tla", "Trace_Session.cfg", trs, "direct", sigfn=sig, nontrivial=lambda t: F.count_mk(t) >= 3)
    chk.sample({"direct_session_trace_excerpt": trs[-1]["ev"][:2], "cfg": trs[-1]["cfg"]})
    trs = S.pmap(S.run_session, PC.algo_cfgs(tier, base_id=310000, n=100 if tier == "quick" else 200))
    chk.validate("Trace_Session.tla", "Trace_Session.cfg", trs, "algos", sigfn=sig, nontrivial=lambda t: F.count_mk(t) >= 3)
    chk.assumptions = ["metric clauses (centre, equal widths) on arbitrary floats are checked on relative positions logged in 2^-20 units; they are exact on the lattice replays", "cells narrower than 8 ulp are exempt from the midpoint clause (the midpoint is not representable)"]
    return chk.finish(
        rule="MC: lattice models of the 5 classes with every split dimension and every admissible cut vector (end points included), pointwise tiling over unit cells; replay on lattice boxes and exact affine images; TV on float boxes with rank-coded coordinates (order/equality exact).  Non-trivial = accepted trace with >= 2-3 expansions; distinct encoded event sequences.",
        explanation="Tiling(P, parent, kids) of spec/PartitionTree.tla on every split: outer faces equal the parent's, neighbours share one boundary value, other dimensions untouched; dbin: the 2^d children are exactly the product of the per-dimension halves; arity; centre; equal widths; cut law of the class.",
    )
