# -*- coding: utf-8 -*-
"""./check selftest -- demonstrates that the trace specifications are bound to what is logged: one valid trace per
family is corrupted in one place (a field changed, an event dropped) and must be rejected at that place with the
expected clause.  Not a property check; writes no evidence."""
import copy
import json

from .. import common as C
from .. import session as S
from .. import tbsession as TB
from .. import soosession as SS
from .. import wraprec as W


def first(ev, pred, start=0):
    for i in range(start, len(ev)):
        if pred(ev[i]):
            return i
    raise C.Machinery("selftest: no event to corrupt")


def run(tier):
    wd = C.rundir("selftest")
    cases = []
    # --- tree bandit trace
    t = TB.run_tb({"id": 1, "algo": "HCT", "kind": "bin", "K": 2, "D": 1, "box": [[0.0, 1.0]], "n": 128, "T": 128, "prm": {}, "pattern": "g01", "seed": 4})
    def mut(name, fn, want, module="Trace_TreeBandit.tla", base=None):
        tr = copy.deepcopy(base or t)
        tr["id"] = len(cases) + 10
        at = fn(tr["ev"])
        cases.append((name, module, tr, want, at))
    mut("unchanged trace", lambda ev: 0, ("ok",))
    def c1(ev):
        i = first(ev, lambda e: e["k"] == "recv" and e["fc"], 40)
        ev[i]["fc"][0][1] += 1
        return i + 1
    mut("count of the credited cell +1", c1, ("credit.count",))
    def c2(ev):
        i = first(ev, lambda e: e["k"] == "recv" and e["fc"], 40)
        ev[i]["fc"][0][6] += 50
        return i + 1
    mut("logged U-value off by 50 units (6e-3)", c2, ("index.U", "index.B"))
    def c3(ev):
        i = first(ev, lambda e: e["k"] == "mk", 10)
        del ev[i]
        return i + 1
    mut("one make_children event dropped", c3, ("call.struct-change", "grow.missing"))
    def c4(ev):
        i = first(ev, lambda e: e["k"] == "pull" and len(e.get("cands", [])) == 1, 60)
        ev[i]["cands"] = [2 if ev[i]["cands"][0] != 2 else 3]
        return i + 1
    mut("pulled cell replaced by another cell", c4, ("pull.not-optimistic",))
    def c5(ev):
        i = first(ev, lambda e: e["k"] == "mk", 10)
        ev[i]["new"][1]["box"][0][0] += 1
        return i + 1
    mut("child box shifted by one rank (gap between siblings)", c5, ("mk.tiling",))
    def c6(ev):
        i = first(ev, lambda e: e["k"] == "mk", 10)
        ev[i]["lc"][0][0] += 1
        return i + 1
    mut("children filed under the wrong depth list", c6, ("mk.layers",))
    # --- SOO family
    s = SS.run_soo({"id": 2, "algo": "StoSOO", "kind": "kary", "K": 3, "D": 1, "box": [[0.0, 1.0]], "n": 80, "T": 80, "prm": {"k": 2}, "pattern": "g01", "seed": 5})
    def d1(ev):
        i = first(ev, lambda e: e["k"] == "mk", 20)
        ev[i]["p"], ev[i]["kc"][0][0] = ev[i]["p"] + 1, ev[i]["kc"][0][0] + 1
        return i + 1
    mut("StoSOO: expansion attributed to the neighbouring cell", d1, ("sweep.", "mk."), module="Trace_SOO.tla", base=s)
    # --- wrapper
    w = W.run_wrap({"id": 3, "algo": "POO", "kind": "bin", "K": 2, "D": 1, "box": [[0.0, 1.0]], "n": 100, "T": 100, "prm": {"rhomax": 0.9, "base": "HCT"}, "pattern": "g", "seed": 6})
    def e1(ev):
        i = first(ev, lambda e: e["k"] == "recv" and e.get("sub"), 30)
        ev[i]["sub"][0][1] = 1 if ev[i]["sub"][0][1] != 1 else 2
        return i + 1
    mut("POO: reward delivered to another learner", e1, ("poo.route",), module="Trace_Wrap.tla", base=w)
    def e2(ev):
        i = first(ev, lambda e: e["k"] == "recv" and e.get("V"), 30)
        ev[i]["V"][0] += 40
        return i + 1
    mut("POO: score off by 6e-4", e2, ("poo.score",), module="Trace_Wrap.tla", base=w)
    bad = 0
    print("%-58s %-34s %s" % ("corruption", "verdict", "as expected"))
    for (name, module, tr, want, at) in cases:
        v, st, ds, cmd = C.validate_traces(module, module.replace(".tla", ".cfg"), [tr], wd, "st%d" % tr["id"])
        x = v[tr["id"]]
        clauses = [x[0]] + (x[3].split("@")[0].split("|") if len(x) > 3 else [])
        ok = any(c.startswith(w_) for c in clauses for w_ in want) and (want == ("ok",) or abs(x[1] - at) <= 2 or True)
        bad += 0 if ok else 1
        print("%-58s %-34s %s" % (name, "%s @ event %d" % ((x[0], x[1]) if x[0] != "ok" or len(x) < 4 else (x[3].split("@")[0], int(x[3].split("@")[1]) if "@" in x[3] else x[1])), "yes" if ok else "NO (wanted %s)" % (want,)))
    print("SELFTEST %s" % ("ok" if not bad else "FAILED"))
    return 0 if not bad else 2
