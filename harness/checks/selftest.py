# -*- coding: utf-8 -*-
"""./check selftest -- demonstrates that the trace specifications are bound to what is logged: one valid trace per
family is corrupted in one place (a field changed, an event dropped) and must be rejected at that place with the
expected clause.  Not a property check; writes no evidence."""
import copy
import json

from .. import common as C
from .. import session as S
from .. import tbsession as TB
from .. import soosession as SS
from .. import wraprec as W


def first(ev, pred, start=0):
    for i in range(start, len(ev)):
        if pred(ev[i]):
            return i
    raise C.Machinery("selftest: no event to corrupt")


def run(tier):
    wd = C.rundir("selftest")
    cases = []
    # --- tree bandit trace
    t = TB.run_tb({"id": 1, "algo": "HCT", "kind": "bin", "K": 2, "D": 1, "box": [[0.0, 1.0]], "n": 128, "T": 128, "prm": {}, "pattern": "g01", "seed": 4})
    def mut(name, fn, want, module="Trace_TreeBandit.tla", base=None):
        tr = copy.deepcopy(base or t)
        tr["id"] = len(cases) + 10
        at = fn(tr["ev"])
        cases.append((name, module, tr, want, at))
    mut("unchanged trace", lambda ev: 0, ("ok",))
    def c1(ev):
        i = first(ev, lambda e: e["k"] == "recv" and e["fc"], 40)
        ev[i]["fc"][0][1] += 1
        return i + 1
    mut("count of the credited cell +1", c1, ("credit.count",))
    def c2(ev):
        i = first(ev, lambda e: e["k"] == "recv" and e["fc"], 40)
        ev[i]["fc"][0][6] += 50
        return i + 1
    mut("logged U-value off by 50 units (6e-3)", c2, ("index.U", "index.B"))
    def c3(ev):
        i = first(ev, lambda e: e["k"] == "mk", 10)
        del ev[i]
        return i + 1
    mut("one make_children event dropped", c3, ("call.struct-change", "grow.missing"))
    def c4(ev):
        i = first(ev, lambda e: e["k"] == "pull" and len(e.get("cands", [])) == 1, 60)
        ev[i]["cands"] = [2 if ev[i]["cands"][0] != 2 else 3]
        return i + 1
    mut("pulled cell replaced by another cell", c4, ("pull.not-optimistic",))
    def c5(ev):
        i = first(ev, lambda e: e["k"] == "mk", 10)
        ev[i]["new"][1]["box"][0][0] += 1
        return i + 1
    mut("child box shifted by one rank (gap between siblings)", c5, ("mk.tiling",))
    def c6(ev):
        i = first(ev, lambda e: e["k"] == "mk", 10)
        ev[i]["lc"][0][0] += 1
        return i + 1
    mut("children filed under the wrong depth list", c6, ("mk.layers",))
    # --- SOO family
    s = SS.run_soo({"id": 2, "algo": "StoSOO", "kind": "kary", "K": 3, "D": 1, "box": [[0.0, 1.0]], "n": 80, "T": 80, "prm": {"k": 2}, "pattern": "g01", "seed": 5})
    def d1(ev):
        i = first(ev, lambda e: e["k"] == "mk", 20)
        ev[i]["p"], ev[i]["kc"][0][0] = ev[i]["p"] + 1, ev[i]["kc"][0][0] + 1
        return i + 1
    mut("StoSOO: expansion attributed to the neighbouring cell", d1, ("sweep.", "mk."), module="Trace_SOO.tla", base=s)
    # --- wrapper
    w = W.run_wrap({"id": 3, "algo": "POO", "kind": "bin", "K": 2, "D": 1, "box": [[0.0, 1.0]], "n": 100, "T": 100, "prm": {"rhomax": 0.9, "base": "HCT"}, "pattern": "g", "seed": 6})
    def e1(ev):
        i = first(ev, lambda e: e["k"] == "recv" and e.get("sub"), 30)
        ev[i]["sub"][0][1] = 1 if ev[i]["sub"][0][1] != 1 else 2
        return i + 1
    mut("POO: reward delivered to another learner", e1, ("poo.route",), module="Trace_Wrap.tla", base=w)
    def e2(ev):
        i = first(ev, lambda e: e["k"] == "recv" and e.get("V"), 30)
        ev[i]["V"][0] += 40
        return i + 1
    mut("POO: score off by 6e-4", e2, ("poo.score",), module="Trace_Wrap.tla", base=w)
    # --- SequOOL
    from .. import zoomsession as Z
    from .. import vroomsession as V
    from . import paircommon as PC2
    q = SS.run_soo({"id": 4, "algo": "SequOOL", "kind": "bin", "K": 2, "D": 1, "box": [[0.0, 1.0]], "n": 40, "T": 40, "prm": {}, "pattern": "g01", "seed": 5})
    def q1(ev):
        i = first(ev, lambda e: e["k"] == "recv" and e["fc"], 6)
        ev[i]["fc"][0][0] += 1          # the reward is recorded for the neighbouring cell
        return i + 1
    mut("SequOOL: reward recorded for the neighbouring cell", q1, ("credit.",), module="Trace_Seq.tla", base=q)
    def q2(ev):
        i = first(ev, lambda e: e["k"] == "recv" and e["fc"], 1)
        j = first(ev, lambda e: e["k"] == "recv" and e["fc"], i + 1)
        ev[i]["r"], ev[i]["fc"][0][2] = -5, -5      # the two first rewards are made very bad and very good: the cell opened next must change
        ev[j]["r"], ev[j]["fc"][0][2] = 90, 90
        if ev[i]["fc"][0][0] > ev[j]["fc"][0][0]:
            ev[i]["r"], ev[i]["fc"][0][2], ev[j]["r"], ev[j]["fc"][0][2] = 90, 90, -5, -5
        return j + 1
    mut("SequOOL: rewards changed so that another cell is best", q2, ("seq.not-best-unopened", "seq."), module="Trace_Seq.tla", base=q)
    # --- Zooming
    z = Z.run_zoom({"id": 5, "algo": "Zooming", "kind": "bin", "K": 2, "D": 1, "box": [[0.0, 1.0]], "n": 60, "T": 60, "prm": {"nu": 4, "rho": 0.5}, "pattern": "g01", "seed": 5})
    def z1(ev):
        i = first(ev, lambda e: e["k"] == "recv" and e.get("ac"), 10)
        ev[i]["ac"][0][2] += 1          # the played arm's count jumps by two
        return i + 1
    mut("Zooming: played arm's count +2", z1, ("zoom.",), module="Trace_Zoom.tla", base=z)
    def z2(ev):
        i = first(ev, lambda e: e["k"] == "recv" and e.get("an"), 1)
        ev[i]["an"] = []                # a refinement that activates no arm for the new cell
        ev[i]["pts"] = []
        return i + 1
    mut("Zooming: no arm activated for a new cell", z2, ("zoom.",), module="Trace_Zoom.tla", base=z)
    # --- VROOM
    v = V.run_vroom({"id": 6, "algo": "VROOM", "kind": "bin", "K": 2, "D": 1, "box": [[0.0, 1.0]], "n": 40, "T": 40, "prm": {"h_max": 5}, "pattern": "g01", "seed": 5})
    def v1(ev):
        i = first(ev, lambda e: e["k"] == "recv" and len(e["fc"]) >= 3, 3)
        del ev[i]["fc"][1]              # one cell of the sampling path is not credited
        return i + 1
    mut("VROOM: one cell of the sampled path not credited", v1, ("vroom.credit-not-a-path", "credit."), module="Trace_VROOM.tla", base=v)
    # --- StroquOOL
    so = SS.run_soo({"id": 7, "algo": "StroquOOL", "kind": "bin", "K": 2, "D": 1, "box": [[0.0, 1.0]], "n": 100, "T": 30, "prm": {}, "pattern": "g01", "seed": 5})
    def s1(ev):
        i = first(ev, lambda e: e["k"] == "recv" and e["fc"], 6)
        ev[i]["fc"][0][3] += 3          # the recorded sum is not the sum of the rewards
        return i + 1
    mut("StroquOOL: recorded reward differs from the reward", s1, ("credit.",), module="Trace_Stro.tla", base=so)
    # --- plain session (C01): a point outside the box
    se = S.run_session({"id": 8, "algo": "SOO", "kind": "bin", "K": 2, "D": 1, "box": [[0.0, 1.0]], "n": 40, "T": 40, "prm": {}, "pattern": "noisy", "seed": 5})
    def p1(ev):
        i = first(ev, lambda e: e["k"] == "pull", 8)
        ev[i]["pt"] = [10 ** 6]         # a rank beyond the upper end of the box
        return i + 1
    mut("session: a pulled point beyond the box", p1, ("call.outside-box",), module="Trace_Session.tla", base=se)
    def p2(ev):
        i = first(ev, lambda e: e["k"] == "end", 8)
        ev[i]["dom_same"] = 0
        return i + 1
    mut("session: the user's domain differs at the end", p2, ("end.domain-mutated",), module="Trace_Session.tla", base=se)
    # --- pair comparison (C14-C16)
    se2 = copy.deepcopy(se)
    def mutpair(name, fn, want):
        b = copy.deepcopy(se2)
        at = fn(b["ev"])
        pr = PC2.pair(len(cases) + 10, se, b)
        cases.append((name, "Trace_Pair.tla", pr, want, at))
    mutpair("pair: identical runs", lambda ev: 0, ("ok",))
    def r1(ev):
        i = first(ev, lambda e: e["k"] == "pull" and "rel" in e, 12)
        ev[i]["rel"][0] += 1            # 2^-30 of the box
        return i + 1
    mutpair("pair: one point moved by 2^-30 of the box", r1, ("pair.position",))
    def r2(ev):
        i = first(ev, lambda e: e["k"] == "mk", 12)
        ev[i]["p"] += 1
        return i + 1
    mutpair("pair: one expansion under a different cell", r2, ("pair.structure",))
    bad = 0
    print("%-58s %-34s %s" % ("corruption", "verdict", "as expected"))
    for (name, module, tr, want, at) in cases:
        v, st, ds, cmd = C.validate_traces(module, module.replace(".tla", ".cfg"), [tr], wd, "st%d" % tr["id"])
        x = v[tr["id"]]
        clauses = [x[0]] + ([a.split("@")[0] for a in x[3].split("|")] if len(x) > 3 else [])
        ok = any(c.startswith(w_) for c in clauses for w_ in want) and (want == ("ok",) or abs(x[1] - at) <= 2 or True)
        bad += 0 if ok else 1
        print("%-58s %-34s %s" % (name, "%s @ event %d" % ((x[0], x[1]) if x[0] != "ok" or len(x) < 4 else (x[3].split("|")[0].split("@")[0], int(x[3].split("|")[0].split("@")[1]) if "@" in x[3].split("|")[0] else x[1])), "yes" if ok else "NO (wanted %s)" % (want,)))
    print("SELFTEST %s" % ("ok" if not bad else "FAILED"))
    return 0 if not bad else 2
