# -*- coding: utf-8 -*-
"""C11 - Zooming keeps the domain covered by active arms and plays the max-index arm."""
import json
import os
import random

from .. import common as C
from .. import consts as K
from .. import framework as F
from .. import session as S
from .. import zoomsession as Z
from .. import algos as A
from . import partcommon as PC


def run_model(chk, P, label):
    pj = os.path.join(chk.wd, "params_%s.json" % label)
    with open(pj, "w") as f:
        json.dump(P, f)
    cfg = chk.write_cfg("zoom_" + label, None, invariants=["InvInside", "InvCovers", "InvStats", "InvStruct"])
    os.environ["MC_PARAMS"] = pj
    try:
        r = chk.mc("MC_Zoom.tla", cfg, label, coverage=True)
    finally:
        os.environ.pop("MC_PARAMS", None)
    if chk.mc_runs[-1].get("action_coverage", {}).get("ReceiveRefine", 0) == 0:
        raise C.Machinery("model %s never refines" % label)
    return r


def cfgs(tier):
    rnd = random.Random(C.seed() + 91)
    out = []
    i = 2000000
    for rep in range(40 if tier == "quick" else 300):
        kind, Kk = rnd.choice(A.PART_KINDS + [("bin", 2), ("dbin", 2), ("kary", 2), ("kary", 4)])
        D = rnd.choice([1, 1, 2]) if kind != "dbin" else rnd.choice([1, 2, 2, 3])
        box = rnd.choice([b for b in PC.BOXES if len(b) == D])
        n = rnd.choice([100, 200, 300]) if tier == "quick" else rnd.choice([100, 300, 600, 1000])
        prm = rnd.choice([{}, {"nu": 1, "rho": 0.5}, {"nu": 2, "rho": 0.7}, {"nu": round(rnd.uniform(0.5, 6), 2), "rho": round(rnd.uniform(0.4, 0.95), 2)}])
        if rep % 5 == 4:      # orthant splits refined several times: fast-shrinking radius, D >= 2
            kind, Kk, D = "dbin", 2, rnd.choice([2, 2, 3])
            box = rnd.choice([b for b in PC.BOXES if len(b) == D])
            prm = rnd.choice([{"nu": 4, "rho": 0.7}, {"nu": 6, "rho": 0.7}, {"nu": 4, "rho": 0.5}])
            n = 300
        i += 1
        out.append({"id": i, "algo": "Zooming", "kind": kind, "K": Kk, "D": D, "box": box, "n": n, "T": n, "prm": prm, "pattern": rnd.choice(["g01", "peak", "bern", "gneg", "const"]), "seed": rnd.randrange(1 << 30),
                    "queries": sorted(rnd.sample(range(n), 3)) if rep % 3 == 0 else [], "midq": sorted(rnd.sample(range(n), 3)) if rep % 4 == 1 else [], "rtype": [None, "f32", "f64", "i64", "int", None][rep % 6]})
    return out


def run(tier):
    chk = F.Check("C11", tier)
    Sx = 2048
    nurho = [K.fxr(K.D(6) * K.dpow(0.7, h), Sx) for h in range(20)]
    grid = [("bin", 2, 1, 32, 5), ("kary", 3, 1, 27, 4), ("rbin", 2, 1, 4, 4), ("dbin", 2, 2, 16, 4), ("bin", 2, 2, 16, 3)] if tier == "quick" else \
           [("bin", 2, 1, 32, 6), ("bin", 2, 2, 16, 4), ("kary", 3, 1, 27, 5), ("kary", 2, 1, 32, 5), ("rbin", 2, 1, 4, 5), ("rkary", 3, 1, 3, 4), ("dbin", 2, 2, 16, 5), ("dbin", 2, 1, 32, 5)]
    for (kind, Kk, D, W, R) in grid:
        P = {"kind": kind, "K": Kk, "D": D, "metric": "lattice", "W": W, "rewards": [0, 1], "R": R, "S": Sx, "RU": 1, "nurho": nurho, "band": 0, "maxcells": 11}
        run_model(chk, P, "%s_K%d_D%d_R%d" % (kind, Kk, D, R))
    chk.exhaustive = True
    trs = S.pmap(Z.run_zoom, cfgs(tier))
    chk.validate("Trace_Zoom.tla", "Trace_Zoom.cfg", trs, "zoom", own=["zoom."], nontrivial=lambda t: F.count_mk(t) >= 1 and t["arms"] >= 3)
    chk.sample({"cfg": trs[0]["cfg"], "events": [{k: v for k, v in e.items() if k in ("k", "best", "an", "ac", "pts", "r", "p")} for e in trs[0]["ev"][:4]]})
    chk.notes["refinements_observed"] = sum(F.count_mk(t) for t in trs)
    chk.assumptions = ["index arg-max and refinement test evaluated in fixed point (S = 2^11) with a band of 6 units inside which either outcome is accepted; containment and coverage are exact (rank-coded coordinates)", "arm statistics compared with the exact sums of the grid rewards"]
    return chk.finish(
        rule="MC: lattice model (midpoint binary 1-D/2-D, K-ary, random cuts, dimension-wise binary), every reward sequence over {0,1}, every maximal-index arm, every split and every admissible hand-over, ArmsInside/Covers/InvStats as invariants; TV: Zooming sessions over partitions (midpoint ones over-represented), dimensions, (nu, rho) draws, with the arm table diffed after every call.  Non-trivial = accepted trace with >= 1 refinement and >= 3 arms.",
        explanation="After every call: each leaf is the cell of exactly one active arm and contains it; the played arm is in Playable (max index up to the band); only the played arm's statistics change and they equal its own history; the cell is refined iff RefineVerdict says so (band aside), the arm goes to exactly one child containing it and every other child gets a fresh arm at its centre.",
    )
