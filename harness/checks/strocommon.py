# -*- coding: utf-8 -*-
"""StroquOOL: exhaustive model MC_Stro (every reward sequence and tie-break for small h_max) and the literal replay of
its behaviours into the implementation (budgets n whose h_max is the model's)."""
import json
import os

from .. import common as C
from .. import framework as F
from .. import session as S
from .. import soosession as SS

# smallest budgets with h_max = floor(n / (2 (H_n + 1)^2)) = 1, 2, 3 are 68, 185, 326; values well inside the plateau are used
N_OF_HMAX = {1: 80, 2: 200, 3: 340}

INVS = ["InvHistory", "InvTotal", "InvRec", "InvCands", "InvDepth", "InvStruct", "InvQuota", "InvOpenedOnce", "InvOnlyTwoKidsUsed", "InvCost"]
PROPS = ["StepEnded", "StepShrink", "StepOpenBest"]


def P_of(hmax, K, R, rewards, emit=0, alph=None):
    if alph:
        return dict(P_of(hmax, K, R, rewards, emit), alph=alph)
    return {"kind": "kary", "K": K, "D": 1, "metric": "rank", "algo": "StroquOOL", "rewards": rewards, "R": R, "emit": emit, "hmax": hmax, "n": N_OF_HMAX.get(hmax, 0)}


def run_model(chk, P, invs, label, props=(), coverage=True, count=True):
    pj = os.path.join(chk.wd, "params_%s.json" % label)
    with open(pj, "w") as f:
        json.dump(P, f)
    cfg = chk.write_cfg("stro_" + label, None, invariants=list(invs) + (["Emit"] if P["emit"] else []), properties=list(props))
    os.environ["MC_PARAMS"] = pj
    try:
        return chk.mc("MC_Stro.tla", cfg, label, coverage=coverage, count=count)
    finally:
        os.environ.pop("MC_PARAMS", None)


def models(chk, tier, invs=INVS, props=PROPS):
    """(hmax, K, R, alphabet): the complete schedule costs 5 / 16 / 22 evaluations for h_max = 1 / 2 / 3"""
    grid = [(1, 2, 8, [0, 1, 2]), (2, 2, 13, [0, 1]), (2, 2, 19, [1]), (3, 2, 25, [0]), (1, 3, 7, [-1, 0])] if tier == "quick" else \
           [(1, 2, 8, [-1, 0, 1, 2]), (2, 2, 17, [0, 1]), (2, 3, 14, [0, 1]), (3, 2, 14, [0, 1]), (3, 2, 25, [1]), (4, 2, 32, [0]), (1, 5, 7, [0, 1])]
    ended = False
    for (hmax, K, R, rew) in grid:
        label = "stro_h%d_K%d_R%d_%d" % (hmax, K, R, len(rew))
        run_model(chk, P_of(hmax, K, R, rew), invs, label, props)
        cov = chk.mc_runs[-1].get("action_coverage", {})
        if cov.get("PullReuse", 0) > 0:
            chk.notes["stroquool_model_reaches_reuse_of_last_opened_cell"] = label
        if cov.get("PullEnded", 0) > 0 and cov.get("PullValStart", 0) > 0:
            ended = True
    if not ended:
        raise C.Machinery("no StroquOOL model reaches validation and the end of the schedule")


def replay_cfgs(chk, tier, base_id, small=False):
    """(hmax, rounds, alphabet or periodic pattern of alphabets): short runs over the full alphabet, complete runs
    (through validation to the end of the schedule) over a periodic pattern"""
    cfgs, expected = [], {}
    i = base_id
    A2, A1 = [0, 2], [1]
    grid = [(1, 7, [0, 2]), (2, 9, [0, 2]), (2, 18, [A2, A1]), (3, 24, [A2, A1, A1])]
    if not small:
        grid += [(1, 6, [0, 1, 2]), (2, 18, [A1, A2, A1]), (3, 24, [A1, A1, A1, A2])]
    if tier != "quick":
        grid += [(2, 13, [0, 2]), (3, 12, [0, 1]), (2, 18, [A2, A2, A1]), (3, 24, [A1, A2])]
    for (hmax, R, rew) in grid:
        alph = rew if isinstance(rew[0], list) else None
        n = N_OF_HMAX[hmax]
        P = P_of(hmax, 2, R, [0] if alph else rew, emit=1, alph=alph)
        label = "stro_emit_h%d_R%d_%s" % (hmax, R, "p" + "".join(str(len(a)) for a in alph) if alph else len(rew))
        r = run_model(chk, P, [], label, coverage=False, count=False)
        beh = F.parse_behaviours(r.stdout)
        if not beh:
            raise C.Machinery("no behaviour for " + label)
        byrew = {}
        for h in beh:
            byrew.setdefault(tuple(x[1] for x in h), set()).add(tuple((x[0], x[2]) for x in h))
        chk.notes.setdefault("behaviours_enumerated", {})[label] = len(beh)
        for key, bset in sorted(byrew.items()):
            i += 1
            cfgs.append({"id": i, "algo": "StroquOOL", "kind": "bin", "K": 2, "D": 1, "box": [[0.0, 1.0]], "n": n, "T": len(key), "prm": {}, "rewards": list(key), "RU": 2, "seed": 1})
            expected[i] = bset
    return cfgs, expected


def observed(tr):
    """per round: (cells whose representative is the handed-out point, whether any evidence changed at the reward)"""
    out = []
    cs = None
    for e in tr["ev"]:
        if e["k"] == "pull":
            cs = tuple(e.get("cands") or ())
        elif e["k"] == "recv":
            out.append((cs, 1 if e.get("fc") else 0))
    return out


def agrees(obs, bset):
    for b in bset:
        if len(b) == len(obs) and all(c in o[0] and cr == o[1] for (c, cr), o in zip(b, obs)):
            return True
    return False


def sources(chk, tier, own, invs=INVS, props=PROPS, small=False):
    models(chk, tier, invs, props)
    cfgs, expected = replay_cfgs(chk, tier, 1360000, small)
    trs = [t for t in S.pmap(SS.run_soo, cfgs) if "skipped" not in t]
    if len(trs) != len(cfgs):
        raise C.Machinery("StroquOOL replay budgets are on a constant boundary")
    chk.validate("Trace_Stro.tla", "Trace_Stro.cfg", trs, "stroreplay", own=own, chunk=100, nontrivial=lambda t: F.count_mk(t) >= 1)
    # The opening schedule is not the subject of any listed property: a run that is not one of the enumerated behaviours
    # is reported in the evidence (the model then says nothing about the code) and never as a violation; what C04 / C07
    # say about that run is decided by Trace_Stro above.
    ok, off = 0, []
    for t in trs:
        if "machinery" in t:
            continue
        if agrees(observed(t), expected[t["id"]]):
            ok += 1
        else:
            off.append(t["id"])
    chk.notes["stro_replay"] = {"reward_sequences": len(trs), "implementation_run_is_literally_one_of_the_enumerated_behaviours": ok,
                                "runs_off_the_modelled_schedule(secondary, not a verdict)": off[:10]}
    return trs
