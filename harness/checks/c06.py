# -*- coding: utf-8 -*-
"""C06 - tree bandits grow only at the pulled leaf, under the published rule."""
from . import tbcommon as TC


def run(tier):
    return TC.full_check(
        "C06", tier, own=["grow.", "mk.guard-leaf"],
        rule="MC: TreeBandit model with InvSplits/InvDepth/StepGrowth; replay of enumerated behaviours; TV: grid-mode sessions; every make_children of a round is compared with Grows(P, st, pulled cell, epoch).  Non-trivial = accepted trace with >= 1 expansion and >= 2 distinct pulled cells.",
        explanation="A round may contain at most one make_children, only inside receive_reward, only on the pulled cell, only if it was a leaf at the pull and the published rule holds (T-HOO: depth <= dbound table; HCT: count >= tau table of the pull's epoch; VHCT: count >= its per-cell threshold); new cells carry zero pulls and infinite U/B; T-HOO's depth never exceeds dbound+1.",
    )
