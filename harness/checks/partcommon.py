# -*- coding: utf-8 -*-
"""Sources shared by C02 (tiling) and C03 (structure): exhaustive lattice models of the five
partition classes, replay of their behaviours into the real classes, random direct sessions and
sessions of every algorithm, all validated by Trace_Session."""
import random

from .. import common as C
from .. import framework as F
from .. import partsession as PS
from .. import session as S
from .. import algos as A

# (kind, K, D, W, MaxCells, MaxDepth)
MC_QUICK = [
    ("bin", 2, 2, 8, 9, 3), ("rbin", 2, 1, 3, 7, 3), ("rbin", 2, 2, 2, 5, 2), ("dbin", 2, 2, 4, 9, 2),
    ("kary", 3, 1, 27, 10, 3), ("kary", 3, 2, 9, 7, 2), ("rkary", 3, 1, 2, 7, 2), ("kary", 4, 1, 16, 9, 2),
]
MC_THOROUGH = [
    ("bin", 2, 2, 8, 15, 3), ("bin", 2, 1, 16, 17, 4), ("bin", 2, 3, 4, 11, 2), ("rbin", 2, 1, 4, 11, 4), ("rbin", 2, 2, 3, 9, 3), ("dbin", 2, 2, 8, 21, 3),
    ("dbin", 2, 1, 8, 15, 3), ("dbin", 2, 3, 4, 17, 2), ("kary", 3, 1, 27, 19, 3), ("kary", 3, 2, 9, 16, 2), ("kary", 4, 1, 64, 21, 3),
    ("kary", 5, 1, 25, 21, 2), ("rkary", 3, 1, 3, 10, 2), ("rkary", 3, 2, 2, 10, 2), ("rkary", 4, 1, 2, 9, 2), ("rkary", 5, 1, 2, 11, 2), ("kary", 2, 2, 8, 13, 3),
]
EMIT = [
    ("bin", 2, 2, 4, 7, 2), ("rbin", 2, 1, 2, 5, 2), ("dbin", 2, 2, 4, 9, 2), ("kary", 3, 1, 9, 7, 2), ("rkary", 3, 1, 2, 4, 1),
    ("kary", 2, 1, 8, 7, 3), ("rkary", 2, 2, 2, 5, 2),
]
INVS = {"C02": ["InvTiled", "InvLeavesTile", "InvInsideRoot", "InvEqualWidths", "InvArity"], "C03": ["InvStruct", "InvArity"]}


def consts(kind, K, D, W, mc, md, emit=False):
    return {"Kind": kind, "KK": K, "DD": D, "W": W, "MaxCells": mc, "MaxDepth": md, "EmitJson": emit}


def model_runs(chk, prop, tier):
    for (kind, K, D, W, mc, md) in (MC_QUICK if tier == "quick" else MC_THOROUGH):
        label = "%s_K%d_D%d_W%d_n%d" % (kind, K, D, W, mc)
        cfg = chk.write_cfg("mc_" + label, consts(kind, K, D, W, mc, md), invariants=INVS[prop], properties=["StepProp"])
        chk.mc("MC_Partition.tla", cfg, label)
    chk.exhaustive = True


def behaviours(chk, tier, limit):
    """TLC-enumerated behaviours (complete histories of bounded models) -> replay configs"""
    cfgs = []
    rnd = random.Random(C.seed())
    nid = [100000]
    for (kind, K, D, W, mc, md) in EMIT:
        label = "emit_%s_K%d_D%d" % (kind, K, D)
        cfg = chk.write_cfg(label, consts(kind, K, D, W, mc, md, True), invariants=["Emit"])
        r = chk.mc("MC_Partition.tla", cfg, label, workers=4, count=False)
        beh = F.parse_behaviours(r.stdout)
        if not beh:
            raise C.Machinery("no behaviour emitted by " + label)
        rnd.shuffle(beh)
        chk.notes.setdefault("behaviours_enumerated", {})[label] = len(beh)
        for h in beh[: limit]:
            for amap in ((1.0, 0.0), (0.125, -3.0), (4.0, 1024.0)):
                nid[0] += 1
                box = [[amap[1] + amap[0] * 0, amap[1] + amap[0] * W] for _ in range(D)]
                cfgs.append({"id": nid[0], "kind": kind, "K": K, "D": D, "box": box, "ops": h, "metric": "lattice", "amap": amap, "seed": 0})
        if len(chk.samples) < 2:
            chk.sample({"tlc_behaviour": beh[0], "model": label})
    return cfgs


BOXES = [
    [[0.0, 1.0]], [[-1.5, 2.25]], [[-7.0, -3.0]], [[1e6, 1e6 + 3.0]], [[-1e-6, 1e-6]], [[0.1, 0.7]],
    [[0.0, 1.0], [0.0, 1.0]], [[-2.0, 3.0], [5.0, 5.5]], [[-1e3, 1e3], [-1e-3, 1e-3]],
    [[0.0, 1.0], [-1.0, 0.0], [10.0, 12.0]], [[-3.3, 4.7], [0.01, 0.02], [-9e5, 9e5]],
    # decimal bounds on both sides of zero: lo + (hi - lo) != hi in floating point, so boundaries rebuilt from a stored width
    # (instead of the parent's own bounds) miss the outer face by an ulp
    [[-0.4, 1.0]], [[-0.1, 0.3]], [[-1.3, 2.0], [-1.1, 3.3]], [[-0.4, 1.0], [-0.1, 0.3], [-1.3, 2.0]],
]


def random_part_cfgs(tier, base_id=200000):
    rnd = random.Random(C.seed() + 1)
    cfgs = []
    reps = 2 if tier == "quick" else 10
    i = base_id
    for (kind, K) in A.PART_KINDS:
        for box in BOXES:
            D = len(box)
            if kind == "dbin" and D == 3 and tier == "quick":
                pass
            for rep in range(reps):
                i += 1
                force = 0.0
                if kind in ("rbin", "rkary") and rep % 2 == 1:
                    force = 0.5
                lo = [rnd.uniform(-100, 100) for _ in range(D)] if rep >= 2 and rep % 3 == 0 else None
                b = box if lo is None else [[lo[x], lo[x] + abs(rnd.gauss(0, 10)) + 1e-3] for x in range(D)]
                cfgs.append({"id": i, "kind": kind, "K": K, "D": D, "box": b, "seed": rnd.randrange(1 << 30), "nops": rnd.randint(4, 14), "maxcells": 160 if kind != "dbin" else 220, "force_endpoints": force, "p_deepen": rnd.choice([0.1, 0.3, 0.6])})
    # random decimal boxes [-a, b] around zero (both tiers)
    for (kind, K) in A.PART_KINDS:
        for D in ((1, 2) if tier == "quick" else (1, 1, 2, 2, 3)):
            i += 1
            b = [[-round(rnd.uniform(0.05, 5), rnd.choice([1, 2])), round(rnd.uniform(0.05, 5), rnd.choice([1, 2]))] for _ in range(D)]
            cfgs.append({"id": i, "kind": kind, "K": K, "D": D, "box": b, "seed": rnd.randrange(1 << 30), "nops": rnd.randint(4, 10), "maxcells": 120, "force_endpoints": 0.0, "p_deepen": 0.3})
    # domains written as [[lo, hi]] * d (the inner list is one object): a copy that keeps the aliasing must not be written in place
    for (kind, K) in A.PART_KINDS:
        for D in (2, 3):
            i += 1
            cfgs.append({"id": i, "kind": kind, "K": K, "D": D, "box": [[-1.0, 3.0]] * D, "alias_dom": True, "seed": rnd.randrange(1 << 30), "nops": 8, "maxcells": 150, "p_deepen": 0.3})
    # the ends of the float range (every finite box lo < hi): tiny, subnormal, huge, a few ulps wide
    EXT = [[[1e-300, 2e-300]], [[5e-324, 5e-323]], [[-1e150, 1e150]], [[1.0, 1.0 + 2.0 ** -40]], [[-1e-310, 1e-310]], [[1e15, 1e15 + 1.0]], [[-3e-5, 7e200]],
           [[1e-300, 3e-300], [-1e100, 1e100]], [[0.0, 5e-324], [1.0, 2.0]]]
    for (kind, K) in A.PART_KINDS:
        for box in (EXT if tier != "quick" else [EXT[(K + len(kind)) % len(EXT)], EXT[(K * 3 + 1) % len(EXT)], EXT[-2]]):
            i += 1
            cfgs.append({"id": i, "kind": kind, "K": K, "D": len(box), "box": box, "seed": rnd.randrange(1 << 30), "nops": 10, "maxcells": 120, "force_endpoints": 0.3 if kind in ("rbin", "rkary") else 0.0, "p_deepen": 0.3})
    # deep chains along the first / last child: depth 70 (labels beyond 2^63 for arity >= 3, cells at float resolution)
    for (kind, K) in A.PART_KINDS:
        for side in ("first", "last"):
            for box in ([[0.0, 1.0]], [[-1.5, 2.25], [10.0, 11.0]]):
                if tier == "quick" and (side == "first") != (len(box) == 1):
                    continue
                i += 1
                cfgs.append({"id": i, "kind": kind, "K": K, "D": len(box), "box": box, "seed": rnd.randrange(1 << 30), "chain": side, "chain_depth": 70 if kind != "dbin" or len(box) == 1 else 40, "maxcells": 10 ** 6})
    return cfgs


ALGO_PRM = {
    "VROOM": {"h_max": 9}, "StoSOO": {}, "SOO": {},
}


def algo_cfgs(tier, base_id=300000, algos=None, n=100):
    rnd = random.Random(C.seed() + 2)
    cfgs = []
    i = base_id
    kinds = A.PART_KINDS if tier != "quick" else [("bin", 2), ("rbin", 2), ("dbin", 2), ("kary", 3), ("rkary", 3), ("kary", 4), ("rkary", 2)]
    for algo in (algos or A.ALGO_NAMES):
        for (kind, K) in kinds:
            for D in ((1, 2) if tier == "quick" else (1, 2, 3)):
                if kind == "dbin" and D == 3:
                    continue
                if algo == "VROOM" and A.arity(kind, K, D) != 2:
                    continue  # documented for binary-child partitions only (C13); the crash is C01's finding
                i += 1
                box = rnd.choice([b for b in BOXES if len(b) == D])
                prm = dict(ALGO_PRM.get(algo, {}))
                if algo in ("POO", "GPO"):
                    prm["base"] = rnd.choice(["T_HOO", "HCT", "VHCT"])
                cfgs.append({"id": i, "algo": algo, "kind": kind, "K": K, "D": D, "box": box, "n": n, "T": n, "prm": prm, "pattern": rnd.choice(["noisy", "neg", "tied", "const", "peak"]), "seed": rnd.randrange(1 << 30),
                             "alias_dom": D >= 2 and all(b == box[0] for b in box), "preq": algo == "VROOM" and i % 2 == 0})
    return cfgs


def repo_test_traces(chk, tier, base_id=9000000):
    """the repository's own tests as a trace source: run them under the /verif pytest plugin
    (no file of the repository changes), return the recorded top-level sessions"""
    import json, os, subprocess, sys
    out = os.path.join(chk.wd, "repo_tests_traces.json")
    files = ["PyXAB/tests/test_algos"] if tier != "quick" else ["PyXAB/tests/test_algos/test_%s.py" % a for a in ("HOO", "SOO", "DOO", "Zooming", "SequOOL", "StoSOO", "POO")]
    env = dict(os.environ, PYXAB_VERIF_TRACE="1", PYXAB_VERIF_TRACE_OUT=out, PYTHONPATH="/verif:" + C.REPO, PYXAB_VERIF_TRACE_MAXCALLS="200" if tier == "quick" else "600")
    p = subprocess.run([sys.executable, "-m", "pytest", "-q", "-x", "-p", "no:cacheprovider", "-p", "harness.pytest_trace_plugin"] + files, cwd=C.REPO, env=env, stdout=subprocess.PIPE, stderr=subprocess.STDOUT, text=True, timeout=3000)
    if not os.path.exists(out):
        raise C.Machinery("repository tests under the trace plugin produced no traces: " + p.stdout[-1500:])
    trs = json.load(open(out))
    for i, t in enumerate(trs):
        if "machinery" in t:
            raise C.Machinery("plugin failed: " + t["machinery"])
        t["id"] = base_id + i
    chk.notes["repository_tests_as_trace_source"] = {"pytest_tail": p.stdout.strip().splitlines()[-1] if p.stdout.strip() else "", "sessions": len(trs)}
    return trs
