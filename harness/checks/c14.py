# -*- coding: utf-8 -*-
"""C14 - runs are reproducible, instances are isolated, user inputs are not mutated."""
import random

from .. import common as C
from .. import framework as F
from .. import session as S
from .. import algos as A
from . import paircommon as PC2


def run(tier):
    chk = F.Check("C14", tier)
    # (a) reproducibility: same seed / config / rewards in two fresh interpreters with different hash seeds
    cfgs = PC2.base_cfgs(tier, 3000000, A.ALGO_NAMES, 3 if tier == "quick" else 8, vary=True)
    half = len(cfgs) // 2
    # twins: per algorithm two instances that differ only in the scale of the domain (or in one parameter), side by side,
    # half of them on flat rewards -- the situation in which state shared through a class attribute changes decisions
    tid = 3900000
    twins = []
    for algo in A.ALGO_NAMES:
        for pat in ("const", "noisy"):
            prm = {"rhomax": 0.9, "base": "HCT"} if algo in ("POO", "GPO") else ({"rhomax": 0.9} if algo in ("PCT", "VPCT") else ({"h_max": 8} if algo == "VROOM" else {}))
            for j, (box, extra) in enumerate((([[0.0, 1.0]], {}), ([[0.0, 10.0]], {"nu": 2.0} if algo in ("T_HOO", "HCT", "VHCT", "Zooming") else {}))):
                tid += 1
                twins.append({"id": tid, "algo": algo, "kind": "bin", "K": 2, "D": 1, "box": box, "n": 100, "T": 100, "prm": dict(prm, **extra), "pattern": pat, "seed": 12345})
    # a StroquOOL budget long enough for several distinct cross-validation candidates (their order must not
    # depend on object identity / hashing)
    twins.append({"id": 3990001, "algo": "StroquOOL", "kind": "bin", "K": 2, "D": 1, "box": [[0.0, 1.0]], "n": 3000, "T": 3000, "prm": {}, "pattern": "noisy", "seed": 777})
    cfgs = cfgs + twins
    m = (len(cfgs) + 7) // 8
    chunks = [cfgs[k * m:(k + 1) * m] for k in range(8) if cfgs[k * m:(k + 1) * m]]     # contiguous: instances of one algorithm share an interpreter
    outs = {}
    import concurrent.futures as cf
    for hs in (1, 4242):
        res = []
        with cf.ThreadPoolExecutor(8) as ex:
            futs = [ex.submit(PC2.run_subprocess, chunks[k], hs, chk.wd, "h%d_%d" % (hs, k)) for k in range(len(chunks))]
            for f in futs:
                res += f.result()
        outs[hs] = {t["id"]: t for t in res}
    pairs = [PC2.pair(cid, outs[1][cid], outs[4242][cid], info={"what": "repro"}) for cid in outs[1]]
    chk.validate("Trace_Pair.tla", "Trace_Pair.cfg", pairs, "repro", own=["pair."], nontrivial=lambda p: len(p["a"]) > 40)
    # every one of these sessions also goes through Trace_Session (domain object untouched)
    chk.validate("Trace_Session.tla", "Trace_Session.cfg", list(outs[1].values()), "dom", own=["end.domain-mutated"], nontrivial=lambda t: True)
    # (a') no state leaks from one instance to the next through class / module attributes: the same sessions
    # executed in the reverse order in a third fresh interpreter must give the same traces
    rev = {}
    with cf.ThreadPoolExecutor(8) as ex:
        futs = [ex.submit(PC2.run_subprocess, list(reversed(chunks[k])), 7, chk.wd, "rev_%d" % k) for k in range(len(chunks))]
        for fu in futs:
            for t in fu.result():
                rev[t["id"]] = t
    pairs = [PC2.pair(20000 + i, outs[1][cid], rev[cid], info={"what": "order-independence"}) for i, cid in enumerate(outs[1])]
    chk.validate("Trace_Pair.tla", "Trace_Pair.cfg", pairs, "order", own=["pair."], nontrivial=lambda p: len(p["a"]) > 40)
    # (a'') the user's domain object: every partition class on boxes whose sides differ, D = 2 and 3
    dj = []
    rnd0 = random.Random(C.seed() + 5)
    for j, (kind, Kk) in enumerate(A.PART_KINDS):
        for D, box in ((2, [[-2.0, 3.0], [5.0, 5.5]]), (3, [[0.0, 1.0], [-4.0, 0.0], [10.0, 12.0]])):
            algo = rnd0.choice(["T_HOO", "HCT", "SOO", "DOO", "SequOOL", "Zooming", "StoSOO", "PCT", "POO"])
            dj.append({"id": 3050000 + 10 * j + D, "algo": algo, "kind": kind, "K": Kk, "D": D, "box": box, "n": 100, "T": 40, "prm": {}, "pattern": "noisy", "seed": rnd0.randrange(1 << 30)})
            # the same with the domain handed in as a (d, 2) array: slices of an array are views, a shallow copy is not a copy
            algo = rnd0.choice(["T_HOO", "HCT", "SOO", "DOO", "SequOOL", "Zooming", "StoSOO", "PCT", "POO"])
            dj.append({"id": 3050000 + 10 * j + D + 5, "algo": algo, "kind": kind, "K": Kk, "D": D, "box": box, "n": 100, "T": 40, "prm": {}, "pattern": "noisy", "seed": rnd0.randrange(1 << 30), "domtype": "ndarray"})
    chk.validate("Trace_Session.tla", "Trace_Session.cfg", S.pmap(S.run_session, dj), "dom2", own=["end.domain-mutated"], nontrivial=lambda t: True)
    # (b) isolation: TLC-enumerated interleavings of two sessions
    scheds = PC2.schedules(chk, "two", 2, 0)
    rnd = random.Random(C.seed() + 17)
    if tier != "quick":
        scheds += PC2.schedules(chk, "two", 3, 0)
    long = PC2.schedules(chk, "two", 30, 0, simulate="num=%d" % (12 if tier == "quick" else 150), label="two_long") if True else []
    rnd.shuffle(scheds)
    iso_algos = [a for a in A.ALGO_NAMES if a != "VROOM"]
    base = PC2.base_cfgs(tier, 3100000, iso_algos, 3 if tier == "quick" else 12, rng_free=True, seedoff=1, n_choices=(40, 64), vary=True)
    jobs = []
    for k, sc in enumerate(scheds[: (40 if tier == "quick" else 1000)] + long):
        ca, cb = rnd.choice(base), rnd.choice(base)
        ca, cb = dict(ca, id=5000000 + 8 * k), dict(cb, id=5000000 + 8 * k + 4)
        if len(sc) <= 12:   # short exhaustive schedules: prefix of the run, the rest sequential
            pass
        jobs.append((ca, cb, sc))
    # siblings: two live instances of the SAME algorithm with different parameters / budgets, interleaved
    sib = PC2.base_cfgs(tier, 3150000, iso_algos, 1, rng_free=True, seedoff=3, n_choices=(40,))
    for k2, c in enumerate(sib):
        other = dict(c, n=64, T=64, seed=c["seed"] + 1, prm=dict(c["prm"], **({"nu": 2.0, "rho": 0.7} if c["algo"] in ("T_HOO", "HCT", "VHCT", "Zooming") else {})))
        sc = long[k2 % len(long)] if long else scheds[0]
        jobs.append((dict(c, id=5500000 + 8 * k2), dict(other, id=5500000 + 8 * k2 + 4), sc))
    # one instance draws from NumPy's global generator (random cuts, random split dimension), the other does not: the
    # second must leave the generator alone (re-seeding, set_state), or the first no longer produces its solo sequence
    users = PC2.base_cfgs(tier, 3170000, ["T_HOO", "HCT", "DOO", "SOO", "SequOOL", "Zooming", "StoSOO"], 1 if tier == "quick" else 4, rng_free=True, seedoff=5, n_choices=(64, 100))
    quiet = [c for c in base if c["algo"] in ("GPO", "PCT", "VPCT", "POO", "StroquOOL", "VHCT")] or base
    for k3, c in enumerate(users):
        kind, Kk, D = [("rbin", 2, 1), ("rkary", 3, 1), ("bin", 2, 2), ("rkary", 4, 2)][k3 % 4]
        box = [b for b in PC2.PC.BOXES if len(b) == D][0]
        ca = dict(c, kind=kind, K=Kk, D=D, box=box, id=5700000 + 8 * k3)
        cb = dict(quiet[k3 % len(quiet)], id=5700000 + 8 * k3 + 4, n=100, T=100)
        jobs.append((ca, cb, long[k3 % len(long)] if long else scheds[0]))
    res = S.pmap(PC2.run_two, jobs)
    pairs = []
    for r in res:
        if len(r) == 1:
            raise C.Machinery(r[0]["machinery"])
        pairs.append(PC2.pair(r[0]["id"], r[0], r[1], info={"what": "isolation-A"}))
        pairs.append(PC2.pair(r[2]["id"], r[2], r[3], info={"what": "isolation-B"}))
    chk.validate("Trace_Pair.tla", "Trace_Pair.cfg", pairs, "iso", own=["pair."], nontrivial=lambda p: len(p["a"]) > 40)
    chk.sample({"schedule_from_tlc": scheds[0], "pair_cfg": pairs[0]["cfg"]})
    chk.assumptions = ["interleaving part on partitions whose splits do not depend on the random stream (1-D midpoint / K-ary / dimension-wise), as the property states", "sessions are compared on points (rank-coded and relative position), cells, and all structural events"]
    return chk.finish(
        rule="TLC enumerates every interleaving of two 2-round (thorough: 3-round) sessions and simulates long ones (MC_Schedule); each schedule is executed with two real instances and each instance's trace is compared event by event (Trace_Pair) with its solo trace; every algorithm is also run twice in fresh interpreters with different PYTHONHASHSEED and compared; all sessions pass Trace_Session's end.domain-mutated clause.  Non-trivial = accepted pair with > 40 events.",
        explanation="Identical sequences of points (bit-identical: equal rank codes and equal relative positions), cells, expansions and recommendations between the two runs of a pair; the user's domain object (list of lists, the aliased [[lo, hi]] * d, or a (d, 2) array) deep-equal before and after.",
    )
