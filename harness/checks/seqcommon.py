# -*- coding: utf-8 -*-
import json
import os
import random

from .. import common as C
from .. import framework as F
from .. import session as S
from .. import soosession as SS
from .. import algos as A
from . import partcommon as PC


def run_model(chk, P, invs, label, props=(), coverage=True, count=True):
    pj = os.path.join(chk.wd, "params_%s.json" % label)
    with open(pj, "w") as f:
        json.dump(P, f)
    cfg = chk.write_cfg("seq_" + label, None, invariants=invs + (["Emit"] if P["emit"] else []), properties=list(props))
    os.environ["MC_PARAMS"] = pj
    try:
        return chk.mc("MC_Seq.tla", cfg, label, coverage=coverage, count=count)
    finally:
        os.environ.pop("MC_PARAMS", None)


def P_of(hmax, K, R, rewards, emit=0):
    return {"kind": "kary", "K": K, "D": 1, "metric": "rank", "algo": "SequOOL", "rewards": rewards, "R": R, "emit": emit, "hmax": hmax}


def models(chk, tier, invs, props):
    grid = [(1, 2, 5, [0, 1]), (2, 2, 9, [0, 1]), (3, 2, 10, [0, 1]), (1, 3, 6, [-1, 0]), (2, 3, 8, [0, 1])] if tier == "quick" else \
           [(1, 2, 6, [0, 1, 2]), (2, 2, 10, [0, 1]), (3, 2, 13, [0, 1]), (4, 2, 14, [0, 1]), (5, 2, 13, [0, 1]), (1, 3, 7, [-1, 0]), (2, 3, 11, [0, 1]), (3, 3, 10, [0, 1]), (2, 2, 9, [-2, -1, 0]), (2, 4, 9, [0, 1]), (1, 5, 7, [0, 1])]
    seen_centre = False
    for (hmax, K, R, rew) in grid:
        label = "h%d_K%d_R%d" % (hmax, K, R)
        run_model(chk, P_of(hmax, K, R, rew), invs, label, props)
        if chk.mc_runs[-1].get("action_coverage", {}).get("PullCentre", 0) > 0:
            seen_centre = True
    if not seen_centre:
        raise C.Machinery("no SequOOL model reaches the exhausted schedule")
    chk.exhaustive = True


def replay_cfgs(chk, tier, base_id):
    """hmax of the implementation is floor(n/H_n): n = 3 -> 1, n = 5 -> 2, n = 9 -> 3"""
    cfgs, expected = [], {}
    i = base_id
    for (n, hmax, R) in [(3, 1, 3), (5, 2, 5), (9, 3, 8 if tier == "quick" else 9)]:
        P = P_of(hmax, 2, R, [0, 1, 2] if R <= 5 else [0, 2], emit=1)
        label = "emit_n%d" % n
        r = run_model(chk, P, [], label, coverage=False, count=False)
        beh = F.parse_behaviours(r.stdout)
        if not beh:
            raise C.Machinery("no behaviour for " + label)
        byrew = {}
        for h in beh:
            byrew.setdefault(tuple(x[1] for x in h), set()).add(tuple(x[0] for x in h))
        chk.notes.setdefault("behaviours_enumerated", {})[label] = len(beh)
        if len(chk.samples) < 2:
            chk.sample({"tlc_behaviour(cell evaluated, reward units)": beh[0], "model": label})
        for key, bset in sorted(byrew.items()):
            i += 1
            cfgs.append({"id": i, "algo": "SequOOL", "kind": "bin", "K": 2, "D": 1, "box": [[0.0, 1.0]], "n": n, "T": len(key), "prm": {}, "rewards": list(key), "RU": 2, "seed": 1})
            expected[i] = bset
    return cfgs, expected


def observed(tr):
    out = []
    cell = None
    for e in tr["ev"]:
        if e["k"] == "pull":
            cs = e.get("cands") or [0]
            cell = cs[-1] if len(cs) == 1 or cs[0] != 1 else (1 if len(cs) == 1 else cs[-1])
        elif e["k"] == "recv":
            out.append(cell)
    return tuple(out)


def _boundary_budgets():
    """budgets whose h_max = floor(n/H_n) is divisible by many depths h (floor(h_max/h) sits exactly on an integer)"""
    from fractions import Fraction
    want = {49: None, 60: None, 98: None, 120: None}
    H = Fraction(0)
    for n in range(1, 1300):
        H += Fraction(1, n)
        hm = int(Fraction(n) / H)
        if hm in want and want[hm] is None and n >= 10:
            want[hm] = n + 2
    out = [v for v in want.values() if v]
    H = Fraction(0)
    near = []
    for n in range(1, 700):
        H += Fraction(1, n)
        q = Fraction(n) / H
        if n >= 10 and q - int(q) > Fraction(97, 100):      # an approximation of H_n that is slightly too small flips h_max here
            near.append(n)
    return out[:3] + near[:6] + out[3:]


BOUNDARY_N = _boundary_budgets()


def random_cfgs(tier, base_id, neg=False):
    rnd = random.Random(C.seed() + 83 + (3 if neg else 0))
    cfgs = []
    i = base_id
    for rep in range(24 if tier == "quick" else 150):
        kind, Kk = rnd.choice(A.PART_KINDS)
        D = rnd.choice([1, 1, 2]) if kind != "dbin" else rnd.choice([1, 2])
        box = rnd.choice([b for b in PC.BOXES if len(b) == D])
        n = rnd.choice([10, 30, 60, 100, 200]) if tier == "quick" else rnd.choice([10, 17, 40, 100, 250, 600, 1000])
        if rep % 3 == 2:
            n = rnd.choice(BOUNDARY_N if tier != "quick" else BOUNDARY_N[:7])
        i += 1
        cfgs.append({"id": i, "algo": "SequOOL", "kind": kind, "K": Kk, "D": D, "box": box, "n": n, "T": n, "prm": {}, "pattern": rnd.choice(["g01", "peak", "flat", "tied", "gneg", "const"]),
                     "shift": rnd.choice([0, 0, -1, -2]) if not neg else rnd.choice([-1, -2]), "seed": rnd.randrange(1 << 30), "queries": sorted(rnd.sample(range(2, n), 2)) if rep % 3 == 0 else []})
    # layers much wider than their budget (8 children per cell, large n): selecting the cells to open from a long list
    for (kind, Kk, D, n, T) in ([("dbin", 2, 3, 5000, 700)] if tier == "quick" else [("dbin", 2, 3, 5000, 1500), ("kary", 8, 1, 6000, 2600), ("kary", 6, 2, 5000, 1500)]):
        i += 1
        cfgs.append({"id": i, "algo": "SequOOL", "kind": kind, "K": Kk, "D": D, "box": [[0.0, 1.0]] * D, "n": n, "T": T, "prm": {}, "pattern": "g01", "shift": 0 if not neg else -1, "seed": rnd.randrange(1 << 30), "queries": [], "timeout": 300,
                     "RU": 1 << 16})      # a fine reward grid: hardly any ties, so the order inside the selected block matters
    return cfgs


def sources(chk, tier, own, invs, props, neg=False):
    models(chk, tier, invs, props)
    cfgs, expected = replay_cfgs(chk, tier, 1600000)
    trs = [t for t in S.pmap(SS.run_soo, cfgs) if "skipped" not in t]
    chk.validate("Trace_Seq.tla", "Trace_Seq.cfg", trs, "seqreplay", own=own, nontrivial=lambda t: F.count_mk(t) >= 1)
    chk.notes["seq_replay"] = {"reward_sequences": len(trs), "implementation_run_is_literally_one_of_the_enumerated_behaviours": sum(1 for t in trs if observed(t) in expected[t["id"]])}
    for t in trs:
        if observed(t) not in expected[t["id"]]:
            path = os.path.join(C.OUT, "replay", "%s_replaydiff_%s.json" % (chk.prop, t["id"]))
            os.makedirs(os.path.dirname(path), exist_ok=True)
            json.dump({"module": "Trace_Seq.tla", "cfg": "Trace_Seq.cfg", "verdict": ["replay.not-an-enumerated-behaviour", 0], "trace": t}, open(path, "w"))
            chk.violations.append(({"id": t["id"], "source": "replay", "clause": "replay.not-an-enumerated-behaviour", "algo": "SequOOL"}, path))
    trs = [t for t in S.pmap(SS.run_soo, random_cfgs(tier, 1700000, neg)) if "skipped" not in t]
    chk.validate("Trace_Seq.tla", "Trace_Seq.cfg", trs, "seqgrid", own=own, nontrivial=lambda t: F.count_mk(t) >= 3)
    return trs
