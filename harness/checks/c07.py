# -*- coding: utf-8 -*-
"""C07 - simple-regret algorithms recommend their best evaluated candidate."""
from .. import framework as F
from .. import session as S
from .. import soosession as SS
from .. import wraprec as W
from . import soocommon as SC
from . import seqcommon as QC
from . import wrapcommon as WC


def run(tier):
    chk = F.Check("C07", tier)
    own = ["rec.", "gpo.final", "poo.glp"]
    # DOO / SOO / StoSOO
    SC.models(chk, "C07", tier)
    for neg in (False, True):
        trs = [t for t in S.pmap(SS.run_soo, SC.random_cfgs(tier, 1800000 + (50000 if neg else 0), neg=neg, allq=True)) if "skipped" not in t]
        chk.validate("Trace_SOO.tla", "Trace_SOO.cfg", trs, "soo_neg" if neg else "soo", own=own, nontrivial=SC.nontrivial)
    chk.sample({"cfg": trs[0]["cfg"], "last_events": trs[0]["ev"][-3:]})
    # SequOOL
    QC.sources(chk, tier, own, ["InvRec"], ["StepExhausted"], neg=True)
    # StroquOOL: the re-evaluated candidate with the highest validation mean
    from . import c04
    trs = [t for t in S.pmap(SS.run_soo, c04.stro_cfgs(tier, 1990000)) if "skipped" not in t]
    chk.validate("Trace_Stro.tla", "Trace_Stro.cfg", trs, "stro", own=own, chunk=20, nontrivial=lambda t: len(t["ev"]) > 100)
    from . import strocommon as ST
    ST.sources(chk, tier, own, ["InvRec", "InvCands"], ["StepEnded"], small=True)
    # POO / GPO / PCT / VPCT
    WC.gpo_models(chk, tier, small=True)
    trs = S.pmap(W.run_wrap, WC.gpo_cfgs(tier, 1900000, patterns=("g", "neg", "tied", "negrun"))[: (15 if tier == "quick" else 120)] + WC.poo_cfgs(tier, 1950000, patterns=("g", "neg", "tied", "negrun"))[: (15 if tier == "quick" else 120)])
    chk.validate("Trace_Wrap.tla", "Trace_Wrap.cfg", trs, "wrap", own=own, nontrivial=lambda t: t["learners"] >= 2)
    chk.assumptions = ["recommendation queries are issued after the loop and at a few intermediate rounds; the evaluated set is the specification's own ledger (cells with a recorded reward)"]
    return chk.finish(
        rule="MC: recommendation sets of the SOOFamily / SequOOL / GPO models are well defined on every reachable state; TV: get_last_point of DOO, SOO, StoSOO, SequOOL, StroquOOL, POO, GPO, PCT, VPCT on grid histories including all-negative, all-equal and tied rewards, validated against RecBestEvaluated / RecStoSOO / RecBest / Best of the specifications.  Non-trivial = accepted trace with >= 3 expansions (wrappers: >= 2 learners).",
        explanation="DOO/SOO/SequOOL: the returned point must be the representative of an evaluated cell whose reward no evaluated cell exceeds; StoSOO: a deepest-level cell of maximal recorded mean (0 while unevaluated), compared exactly as sum/count; GPO family: a validated point of maximal score once all phases are over; POO: a pull of a learner of maximal true mean.",
    )
