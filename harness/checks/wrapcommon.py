# -*- coding: utf-8 -*-
import random

from .. import common as C
from .. import consts as K
from .. import algos as A
from . import partcommon as PC


_CROSS = {}


def crossings(rhomax, lo=100, hi=1300):
    """budgets at which N = ceil(0.5 Dmax ln((n/2)/ln(n/2))) steps up: the boundary values of the schedule"""
    key = round(rhomax, 6)
    if key not in _CROSS:
        out = []
        prev = K.gpo_consts(lo - 1, rhomax)["N"]
        for n in range(lo, hi):
            N = K.gpo_consts(n, rhomax)["N"]
            if N != prev:
                out += [n - 1, n, n + 1]
            prev = N
        _CROSS[key] = [n for n in out if n >= lo]
    return _CROSS[key]


def gpo_cfgs(tier, base_id, algos=("GPO", "PCT", "VPCT"), patterns=("g", "neg", "tied", "peak", "decay", "decay", "negrun", "negrun")):
    rnd = random.Random(C.seed() + 31)
    cfgs = []
    i = base_id
    reps = 10 if tier == "quick" else 60
    for algo in algos:
        for rep in range(reps):
            while True:
                rhomax = rnd.choice([0.9, 0.9, 0.7, rnd.uniform(0.2, 0.96), rnd.uniform(0.6, 0.95)])
                n = rnd.choice([100, 128, 200, 300, 400]) if tier == "quick" else rnd.randint(100, 1200)
                if rep % 2 == 1 and rhomax in (0.9, 0.7):      # every other run sits on a step of N (odd and even budgets)
                    cr = [x for x in crossings(rhomax) if x <= (900 if tier == "quick" else 1300)]
                    if cr:
                        n = rnd.choice(cr)
                c = K.gpo_consts(n, rhomax)
                if not c["amb"] and c["N"] >= 1 and c["half"] >= 1 and c["N"] <= 400:
                    break
            kind, Kk = rnd.choice(A.PART_KINDS)
            D = rnd.choice([1, 2]) if kind != "dbin" else rnd.choice([1, 2])
            box = rnd.choice([b for b in PC.BOXES if len(b) == D])
            i += 1
            T = n if rnd.random() < 0.8 else rnd.randint(2, n)
            cfgs.append({"id": i, "algo": algo, "kind": kind, "K": Kk, "D": D, "box": box, "n": n, "T": T, "prm": {"rhomax": rhomax, "numax": rnd.choice([1, 1.0, 0.5, 2.5]), "base": rnd.choice(["T_HOO", "HCT", "VHCT"])}, "pattern": rnd.choice(patterns), "seed": rnd.randrange(1 << 30), "rtype": [None, "f32", "f64", "i64", "int", None][rep % 6],
                         # recommendation queries in the middle of phases (exploration and validation halves): a query is a pure read
                         "queries": (sorted(rnd.sample(range(T), min(T, 8))) if rep % 3 == 0 else (list(range(T)) if rep % 3 == 1 and T <= 300 else [])),
                         "midq": sorted(rnd.sample(range(T), min(T, 4))) if rep % 4 == 2 else []})
    return cfgs


def poo_cfgs(tier, base_id, patterns=("g", "neg", "tied", "peak", "negrun")):
    rnd = random.Random(C.seed() + 37)
    cfgs = []
    i = base_id
    reps = 30 if tier == "quick" else 200
    for rep in range(reps):
        while True:
            rhomax = rnd.choice([0.9, rnd.uniform(0.84, 0.995), rnd.uniform(0.84, 0.93)])
            c = K.poo_consts(rhomax)
            if not c["amb"] and c["thr"][1] <= 2:
                break
        n = rnd.choice([100, 150, 250, 400]) if tier == "quick" else rnd.randint(100, 900)
        kind, Kk = rnd.choice(A.PART_KINDS)
        D = rnd.choice([1, 2])
        box = rnd.choice([b for b in PC.BOXES if len(b) == D])
        i += 1
        q = sorted(rnd.sample(range(n), 3)) if rep % 3 == 0 else []
        cfgs.append({"id": i, "algo": "POO", "kind": kind, "K": Kk, "D": D, "box": box, "n": n, "T": n, "prm": {"rhomax": rhomax, "numax": rnd.choice([1, 0.5, 2.5]), "base": rnd.choice(["T_HOO", "HCT", "VHCT"])}, "pattern": rnd.choice(patterns), "seed": rnd.randrange(1 << 30), "queries": q, "midq": sorted(rnd.sample(range(n), 4)) if rep % 4 == 1 else [], "rtype": [None, "f32", "f64", "i64", "int", None][rep % 6]})
    return cfgs


def gpo_models(chk, tier, small=False):
    pairs = [(N, h) for N in (1, 2, 3, 4) for h in (1, 2, 3)] if tier == "quick" else [(N, h) for N in range(1, 7) for h in range(1, 5)]
    if small:
        pairs = [(1, 1), (2, 2), (3, 1), (3, 2)] if tier == "quick" else [(N, h) for N in (1, 2, 3, 4) for h in (1, 2, 3)]
    for (N, h) in pairs:
        # the schedule is reward independent; two reward letters only while 2^(rounds) stays small
        rew = "{0, 1}" if 2 * h * N + 2 <= (18 if tier == "quick" else 22) else "{0}"
        cfg = chk.write_cfg("gpo_N%d_h%d" % (N, h), {"NN": N, "HALF": h, "Rewards": rew, "Extra": 2}, invariants=["InvLearners", "InvValidation", "InvBudget", "InvFinal"], properties=["StepProp"])
        chk.mc("MC_GPO.tla", cfg, "gpo_N%d_h%d" % (N, h), workers=4)
    chk.exhaustive = True


def gpo_real_pairs(chk, tier):
    """the real (N, half) of every budget in a range and every rho_max of a grid, all in one TLC run"""
    import json, os
    pairs = set()
    ns = range(100, 2001, 1 if tier != "quick" else 37)
    for rm in ([0.5, 0.7, 0.8, 0.85, 0.9, 0.93, 0.95] if tier != "quick" else [0.7, 0.9]):
        for n in ns:
            c = K.gpo_consts(n, rm)
            if c["N"] >= 1 and c["half"] >= 1 and not c["amb"]:
                pairs.add((c["N"], c["half"]))
    pj = os.path.join(chk.wd, "gpo_pairs.json")
    json.dump({"pairs": sorted(pairs), "nmax": 2000}, open(pj, "w"))
    cfg = chk.write_cfg("gpo_pairs", None, invariants=["InvLearners", "InvValidation", "InvBudget", "InvFinal", "InvFits"])
    os.environ["MC_PARAMS"] = pj
    try:
        chk.mc("MC_GPOS.tla", cfg, "gpo_real_pairs")
    finally:
        os.environ.pop("MC_PARAMS", None)
    chk.notes["real_schedules_model_checked"] = len(pairs)


def poo_real_tables(chk, tier):
    import json, os
    tabs = []
    for rm in ([0.84, 0.87, 0.9, 0.93, 0.96, 0.98, 0.99] if tier != "quick" else [0.84, 0.9, 0.97]):
        c = K.poo_consts(rm)
        if not c["amb"] and c["thr"][1] <= 2:
            tabs.append(c["thr"])
    pj = os.path.join(chk.wd, "poo_tables.json")
    json.dump({"tables": tabs, "R": 300 if tier == "quick" else 1200}, open(pj, "w"))
    cfg = chk.write_cfg("poo_tables", None, invariants=["InvSchedule", "InvGrid", "InvRouting", "InvCodedMean"])
    os.environ["MC_PARAMS"] = pj
    try:
        chk.mc("MC_POOS.tla", cfg, "poo_real_tables")
    finally:
        os.environ.pop("MC_PARAMS", None)
    chk.notes["real_threshold_tables_model_checked"] = len(tabs)


def poo_models(chk, tier):
    grid = [("{1, 2, 3, 99}", 4, "{0, 1}", 10)] if tier == "quick" else [("{1, 2, 3, 5, 99}", 4, "{0, 1}", 14), ("{1, 2, 99}", 5, "{0, 2}", 13), ("{1, 2}", 3, "{0, 1, 3}", 10)]
    for j, (m, k, rew, R) in enumerate(grid):
        cfg = chk.write_cfg("poo_%d" % j, {"Mults": m, "KMax": k, "Rewards": rew, "R": R}, invariants=["InvSchedule", "InvGrid", "InvRouting", "InvCodedMean"], properties=["StepProp", "LearnersOnlyAdded"])
        chk.mc("MC_POO.tla", cfg, "poo_%d" % j, coverage=(j == 0))
    chk.exhaustive = True
