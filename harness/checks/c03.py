# -*- coding: utf-8 -*-
"""C03 - partition tree and per-depth index stay mutually consistent."""
from .. import common as C
from .. import framework as F
from .. import partsession as PS
from .. import session as S
from . import partcommon as PC


def sig(tr, clause, line):
    return {"kindclass": tr["P"]["kind"], "algo": tr["P"].get("algo", "partition")}


def run(tier):
    chk = F.Check("C03", tier)
    PC.model_runs(chk, "C03", tier)
    # spec -> code
    rp = PC.behaviours(chk, tier, 40 if tier == "quick" else 400)
    trs = S.pmap(PS.run_part, rp)
    chk.notes["replays_that_consumed_the_scripted_draws_differently"] = sum(1 for t in trs if any(e.get("k") == "script" for e in t.get("ev", [])))
    chk.validate("Trace_Session.tla", "Trace_Session.cfg", trs, "replay", sigfn=sig, nontrivial=lambda t: F.count_mk(t) >= 2)
    chk.notes["replayed_behaviours"] = len(trs)
    # code -> spec: direct sessions
    trs = S.pmap(PS.run_part, PC.random_part_cfgs(tier))
    chk.validate("Trace_Session.tla", "Trace_Session.cfg", trs, "direct", sigfn=sig, nontrivial=lambda t: F.count_mk(t) >= 3)
    chk.sample({"direct_session_trace_excerpt": trs[0]["ev"][:3], "cfg": trs[0]["cfg"]})
    # code -> spec: every algorithm's tree
    trs = S.pmap(S.run_session, PC.algo_cfgs(tier, n=100 if tier == "quick" else 200))
    chk.validate("Trace_Session.tla", "Trace_Session.cfg", trs, "algos", sigfn=sig, nontrivial=lambda t: F.count_mk(t) >= 3)
    chk.notes["algorithm_sessions"] = len(trs)
    # the trees of the base learners grown under POO / GPO / PCT / VPCT
    from .. import wraprec as W
    from . import wrapcommon as WC
    lts = []
    for w in S.pmap(W.run_wrap, [dict(c, compose=True, n=min(c["n"], 300), T=min(c["T"], 300)) for c in WC.gpo_cfgs(tier, 380000)[: (6 if tier == "quick" else 40)] + WC.poo_cfgs(tier, 390000)[: (4 if tier == "quick" else 30)]]):
        if "machinery" in w:
            raise C.Machinery(w["machinery"])
        lts += w.get("learner_traces", [])
    for j, lt in enumerate(lts):
        lt["id"] = 395000 + j
    chk.validate("Trace_TreeBandit.tla", "Trace_TreeBandit.cfg", lts, "learners", sigfn=sig, chunk=80, nontrivial=lambda t: F.count_mk(t) >= 1)
    rt = PC.repo_test_traces(chk, tier)
    chk.validate("Trace_Session.tla", "Trace_Session.cfg", rt, "repotests", sigfn=sig, chunk=20, nontrivial=lambda t: F.count_mk(t) >= 3)
    chk.assumptions = ["small-scope: exhaustive models use <= 17 cells, depth <= 4", "cells that become unreachable and unlisted can no longer be observed through the public getters"]
    return chk.finish(
        rule="MC: all interleavings of deepen/make_children(leaf, documented flag) on lattice models of the 5 classes; replay: TLC behaviours driven into the real classes with scripted RNG (x3 exact affine images); TV: random direct sessions and sessions of all algorithms.  A trace is non-trivial if it is accepted and contains >= 2-3 expansions after construction; distinct = distinct encoded event sequences.",
        explanation="Every make_children event must be explained by MkB of spec/PartitionTree.tla (fresh ids, labels idx[p]\\o<<j-1>>, exactly p's child list changes, landing layer, depth counter); StructOK is checked on every initial tree and on every final tree.",
    )
