# -*- coding: utf-8 -*-
"""C01 - the ask/tell loop is total and every proposed point lies inside the domain."""
import math
import random

from .. import common as C
from .. import framework as F
from .. import session as S
from .. import algos as A
from . import partcommon as PC

PATTERNS = ["neg", "const", "tied", "noisy", "huge", "tiny", "zero", "peak", "gridpm", "ramp", "rampdown"]


def loguni(rnd, a, b):
    return math.exp(rnd.uniform(math.log(a), math.log(b)))


def draw_prm(rnd, algo, n):
    p = {}
    if algo in ("T_HOO", "HCT", "VHCT", "Zooming"):
        p["nu"] = rnd.choice([1, 1, loguni(rnd, 1e-3, 100)])
        p["rho"] = rnd.choice([0.5, 0.9, rnd.uniform(0.01, 0.99)])
    if algo in ("HCT", "VHCT"):
        p["c"] = rnd.choice([0.1, loguni(rnd, 0.01, 2)])
        p["delta"] = rnd.choice([0.01, loguni(rnd, 1e-4, 0.5)])
    if algo == "VHCT":
        p["bound"] = rnd.choice([1, 0.1, 10])
    if algo in ("POO", "GPO", "PCT", "VPCT"):
        p["numax"] = rnd.choice([1, loguni(rnd, 0.1, 10)])
        p["rhomax"] = rnd.choice([0.9, 0.9, rnd.uniform(0.05, 0.999), rnd.uniform(0.5, 0.97)])
    if algo in ("POO", "GPO"):
        p["base"] = rnd.choice(["T_HOO", "HCT", "VHCT"])
    if algo == "SOO":
        p["h_max"] = rnd.choice([100, n, 1000])
    if algo == "StoSOO":
        p["h_max"] = rnd.choice([100, n])
        p["k"] = rnd.choice([None, None, 1, 3, 10])
        p["delta"] = rnd.choice([None, loguni(rnd, 0.01, 0.5)])
    if algo == "VROOM":
        p["h_max"] = rnd.choice([3, 6, 9, 12])
        p["b"] = rnd.choice([1, loguni(rnd, 0.1, 2)])
        p["f_max"] = rnd.choice([1, loguni(rnd, 0.5, 10)])
    if algo == "DOO" and rnd.random() < 0.4:
        p["delta_kind"] = rnd.choice(["pow2", "const"])
    return p


def classify(cfg):
    """input classes named by the known-findings file"""
    a, prm = cfg["algo"], cfg.get("prm", {})
    out = {}
    n = cfg["n"]
    if a in ("POO", "GPO", "PCT", "VPCT"):
        rm = prm.get("rhomax", 0.9)
        dmax = math.log(2) / math.log(1 / rm)
        if a == "POO":
            out["poo_starts"] = bool(2 <= 0.5 * dmax * math.log(2 / math.log(2)))
        else:
            N = math.ceil(0.5 * dmax * math.log((n / 2) / math.log(n / 2)))
            out["gpo_N"] = "1" if N == 1 else (">1" if N > 1 else "<1")
            out["gpo_half0"] = bool(N >= 1 and math.floor(n / (2 * N)) == 0)
    if a == "VROOM":
        out["binary_children"] = A.arity(cfg["kind"], cfg["K"], cfg["D"]) == 2
    if any(not math.isfinite(b[0] + b[1]) for b in cfg["box"]):
        out["midpoint_overflows"] = True
    return out


def make_cfgs(tier):
    rnd = random.Random(C.seed() + 101)
    cfgs = []
    i = 400000
    reps = 2 if tier == "quick" else 12
    for algo in A.ALGO_NAMES:
        for (kind, K) in A.PART_KINDS:
            for rep in range(reps):
                D = rnd.choice([1, 1, 2, 3]) if kind != "dbin" else rnd.choice([1, 2, 2, 3])
                box = rnd.choice([b for b in PC.BOXES if len(b) == D])
                if rep % 4 == 3:
                    box = [[v, v + loguni(rnd, 1e-6, 1e6)] for v in [rnd.uniform(-1e3, 1e3) for _ in range(D)]]
                n = rnd.choice([100, 100, 128, 150]) if tier == "quick" else rnd.choice([100, 150, 256, 400])
                u = rnd.random()
                T = n if u < 0.6 else (rnd.randint(1, n) if u < 0.8 else rnd.randint(1, 12))     # also runs stopped in the very first phase
                prm = draw_prm(rnd, algo, n)
                if algo == "VROOM" and A.arity(kind, K, D) != 2:
                    # outside VROOM's documented scope (binary children); the constructor builds
                    # arity^floor(log2 n) cells, so only the smallest such case is driven (finding F9)
                    if A.arity(kind, K, D) != 3 or rep > 0:
                        continue
                    n, T = 100, 100
                i += 1
                cfg = {"id": i, "algo": algo, "kind": kind, "K": K, "D": D, "box": box, "n": n, "T": T, "prm": prm, "pattern": rnd.choice(PATTERNS), "seed": rnd.randrange(1 << 30), "timeout": 30}
                cfgs.append(cfg)
    # corners named by the findings file / by the property text
    corners = [
        ("GPO", {"rhomax": 0.995, "base": "T_HOO"}, 100, 100), ("PCT", {"rhomax": 0.999}, 100, 100),
        ("GPO", {"rhomax": 0.9, "base": "HCT"}, 100, 3), ("VPCT", {"rhomax": 0.9}, 120, 1), ("GPO", {"rhomax": 0.25, "base": "VHCT"}, 100, 100),
        ("POO", {"rhomax": 0.5, "base": "T_HOO"}, 100, 100), ("POO", {"rhomax": 0.84, "base": "HCT"}, 100, 100),
        ("DOO", {"delta_kind": "pow2"}, 100, 100), ("StoSOO", {"k": 1, "h_max": 100}, 100, 100), ("SOO", {"h_max": 100}, 100, 100),
    ]
    # runs that stop inside the first phase of the schedule, for every base learner
    for base in ("T_HOO", "HCT", "VHCT"):
        for T in (1, 2, rnd.randint(3, 30)):
            corners.append(("GPO", {"rhomax": 0.9, "base": base}, rnd.choice([100, 1000]), T))
            corners.append(("POO", {"rhomax": 0.9, "base": base}, 100, T))
    for algo in A.ALGO_NAMES:
        if algo not in ("GPO", "POO"):
            corners.append((algo, {"h_max": 9} if algo == "VROOM" else {}, 100, rnd.choice([1, 1, 2, 3])))
    # deep caps with a short run (a descent to the cap in one call), and StroquOOL stopped inside its cross-validation
    # window (candidates whose reward lists were just restarted)
    corners += [("VROOM", {"h_max": 1000}, 1000, 1), ("SOO", {"h_max": 1000}, 1000, 6), ("StoSOO", {"h_max": 1000, "k": 1}, 1000, 6)]
    from . import c04
    for n in (100, 300, 1000):
        t0, hm = c04.validation_start(n)
        if t0:
            for T in sorted({t0, t0 + 1, t0 + hm, t0 + hm + 1, t0 + 2 * hm + 1}):
                if T <= n:
                    corners.append(("StroquOOL", {}, n, T))
    for (algo, prm, n, T) in corners:
        i += 1
        cfgs.append({"id": i, "algo": algo, "kind": "bin", "K": 2, "D": 1, "box": [[0.0, 1.0]], "n": n, "T": T, "prm": prm, "pattern": "noisy", "seed": rnd.randrange(1 << 30), "timeout": 30})
    # greedy searches driven along a face of the box by a monotone objective (deep chains of first / last children)
    for algo in ("DOO", "SOO", "SequOOL", "HCT", "T_HOO"):
        for (kind, K) in (("kary", 5), ("kary", 3), ("rkary", 4), ("bin", 2), ("dbin", 2)):
            for pat in ("ramp", "rampdown"):
                i += 1
                cfgs.append({"id": i, "algo": algo, "kind": kind, "K": K, "D": 1, "box": rnd.choice([[[0.0, 1.0]], [[0.1, 0.7]], [[-1.5, 2.25]]]), "n": 150, "T": 150, "prm": {}, "pattern": pat, "seed": rnd.randrange(1 << 30), "timeout": 30})
    # ... the same on far-shifted / negative boxes with random K-ary cuts, where cells only a few ulps wide (and then of width
    # zero) are reached within the budget: redraw loops, stick-breaking cuts that round onto an end point
    for algo, prm in (("DOO", {}), ("SOO", {"h_max": 1000}), ("T_HOO", {"nu": 1, "rho": 0.95}), ("HCT", {"nu": 1, "rho": 0.9, "c": 0.02})):
        for (kind, K) in (("rkary", 3), ("rkary", 5), ("rbin", 2), ("kary", 3)):
            for box, pat in (([[1e6, 1e6 + 3.0]], "rampdown"), (rnd.choice([[[1e6, 1e6 + 3.0]], [[-7.0, -3.0]], [[4096.0, 4097.0]], [[1e9, 1e9 + 1.0]]]), "ramp")):
                i += 1
                cfgs.append({"id": i, "algo": algo, "kind": kind, "K": K, "D": 1, "box": box, "n": 260, "T": 260, "prm": dict(prm), "pattern": pat, "seed": rnd.randrange(1 << 30), "timeout": 30})
    # Zooming refines at almost every round when nu is large (or rho close to 1): chains of 50+ refinements, zero-width cells
    for (kind, K) in (("bin", 2), ("rbin", 2), ("rkary", 3), ("kary", 3), ("dbin", 2)):
        for (nu, rho) in ((2000.0, 0.5), (100.0, 0.9), (10.0, 0.99)):
            i += 1
            D = 2 if kind == "dbin" and nu == 100.0 else 1
            box = rnd.choice([[[0.0, 1.0]], [[1e6, 1e6 + 3.0]], [[-7.0, -3.0]]])
            cfgs.append({"id": i, "algo": "Zooming", "kind": kind, "K": K, "D": D, "box": box * D if D > 1 else box, "n": 120, "T": 120, "prm": {"nu": nu, "rho": rho},
                         "pattern": rnd.choice(["const", "neg", "zero"]), "seed": rnd.randrange(1 << 30), "timeout": 30})
    # HCT / VHCT / T-HOO declare no depth cap: with rho close to 1 and rewards that keep growing the tree gains a level every
    # other round and is ~1000 levels deep after 2000 rounds (anything recursive over the depth meets the interpreter's limit)
    for algo, prm, T in (("HCT", {"nu": 1, "rho": 0.9995}, 2100),) + ((("VHCT", {"nu": 1, "rho": 0.9995}, 2100), ("T_HOO", {"nu": 1, "rho": 0.9995}, 2100)) if tier != "quick" else ()):
        i += 1
        cfgs.append({"id": i, "algo": algo, "kind": "bin", "K": 2, "D": 1, "box": [[0.0, 1.0]], "n": T, "T": T, "prm": prm, "pattern": "climb", "seed": rnd.randrange(1 << 30), "timeout": 60,
                     "notree": tier == "quick" or algo != "HCT"})      # protocol / point clauses only (a 2000-cell tree per event is the thorough tier's)
    # the ends of the float range: tiny, subnormal, huge, and a box whose bounds sum overflows (finding F15)
    for j, box in enumerate(([[1e-300, 2e-300]], [[5e-324, 1e-323]], [[-1e150, 1e150]], [[1.0, 1.0000000000000002]], [[1e307, 1.7e308]])):
        for algo in ("T_HOO", "SOO", "Zooming"):
            i += 1
            cfgs.append({"id": i, "algo": algo, "kind": rnd.choice(["bin", "kary", "rbin"]), "K": 3, "D": 1, "box": box, "n": 100, "T": 60, "prm": {}, "pattern": "noisy", "seed": rnd.randrange(1 << 30), "timeout": 30, "sessiononly": not math.isfinite(box[0][0] + box[0][1])})
    return cfgs


def run_one(cfg):
    tr = S.run_session(cfg)
    if "cfg" in tr:
        tr["cfg"]["cls"] = classify(cfg)
    return tr


def sig(tr, clause, line):
    e = tr["ev"][line - 1]
    rounds = sum(1 for x in tr["ev"][: line - 1] if x.get("k") == "recv")
    s = {"call": e.get("k"), "exc": e.get("exc", ""), "first_round": rounds == 0}
    for k, v in tr["cfg"].get("cls", {}).items():
        s[k] = v
    return s


def run(tier):
    chk = F.Check("C01", tier)
    # design level: every cell any partition can create lies inside the root box
    for (kind, K, D, W, mc, md) in [("bin", 2, 2, 8, 9, 3), ("rkary", 3, 1, 2, 7, 2), ("dbin", 2, 2, 4, 9, 2)] + ([("rbin", 2, 2, 3, 7, 3), ("kary", 3, 2, 9, 10, 2)] if tier != "quick" else []):
        label = "%s_K%d_D%d" % (kind, K, D)
        cfg = chk.write_cfg("mc_" + label, PC.consts(kind, K, D, W, mc, md), invariants=["InvInsideRoot"])
        chk.mc("MC_Partition.tla", cfg, label)
    cfgs = make_cfgs(tier)
    trs = S.pmap(run_one, cfgs)
    chk.validate("Trace_Session.tla", "Trace_Session.cfg", trs, "matrix", sigfn=sig, nontrivial=lambda t: sum(1 for e in t["ev"] if e.get("k") == "pull") >= 20)
    chk.sample({"cfg": trs[0]["cfg"], "first_events": [{k: v for k, v in e.items() if k in ("k", "t", "pt", "ptok", "cands", "rel")} for e in trs[0]["ev"][1:4]]})
    chk.notes["sessions"] = len(trs)
    rt = PC.repo_test_traces(chk, tier)
    chk.validate("Trace_Session.tla", "Trace_Session.cfg", rt, "repotests", sigfn=lambda tr, c, l: {"source": "repository test"}, chunk=20, nontrivial=lambda t: len(t["ev"]) > 50)
    chk.notes["algorithms"] = sorted(set(c["algo"] for c in cfgs))
    chk.assumptions = ["rewards finite; T <= declared budget; SOO/StoSOO depth caps >= budget (the property's side conditions)", "a call that does not return within 30 s is a hang"]
    return chk.finish(
        rule="TV: sessions over algorithm x partition class (K=2..5) x dimension 1..3 x box x documented parameter draws x reward pattern x seed, validated by Trace_Session (protocol, every point a finite d-vector whose rank lies inside the user box).  Non-trivial = accepted session with >= 20 rounds; distinct encoded event sequences.  MC: AllInsideRoot on the lattice models.",
        explanation="The Session spec has no action for an exception, a hang, a non-point or a point outside the box, so any such event is rejected; coordinates are rank coded, so the box test is exact for the floats.",
    )
