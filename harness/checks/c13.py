# -*- coding: utf-8 -*-
"""C13 - VROOM samples cells from the rank-based distribution and points inside the cell."""
import random

from .. import common as C
from .. import framework as F
from .. import session as S
from .. import vroomsession as V
from .. import algos as A
from . import partcommon as PC

BIN_KINDS = [("bin", 2), ("rbin", 2), ("kary", 2), ("rkary", 2)]


def cfgs(tier):
    rnd = random.Random(C.seed() + 97)
    out = []
    i = 2100000
    for rep in range(36 if tier == "quick" else 200):
        kind, Kk = rnd.choice(BIN_KINDS + [("dbin", 2)])
        D = 1 if kind == "dbin" else rnd.choice([1, 1, 2, 3])
        box = rnd.choice([b for b in PC.BOXES if len(b) == D])
        n = rnd.choice([8, 16, 40, 64, 100]) if tier == "quick" else rnd.choice([8, 16, 50, 100, 128, 200, 256])
        sd = n.bit_length() - 1
        hm = rnd.choice([max(1, sd - 2), sd, sd + 3, sd + 6] + ([100] if n <= 40 else []))
        i += 1
        out.append({"id": i, "algo": "VROOM", "kind": kind, "K": Kk, "D": D, "box": box, "n": n, "T": n, "prm": {"h_max": hm, "b": rnd.choice([1, 0.5, 2]), "f_max": rnd.choice([1, 2])},
                    "pattern": rnd.choice(["g01", "peak", "bern", "gneg", "const"]), "seed": rnd.randrange(1 << 30)})
    return out


def run(tier):
    chk = F.Check("C13", tier)
    trs = [t for t in S.pmap(V.run_vroom, cfgs(tier)) if "skipped" not in t]
    chk.validate("Trace_VROOM.tla", "Trace_VROOM.cfg", trs, "vroom", own=["vroom."], chunk=40, nontrivial=lambda t: sum(1 for e in t["ev"] if e["k"] == "pull") >= 8)
    t = trs[0]
    chk.sample({"cfg": t["cfg"], "sd": t["P"]["sd"], "hcap": t["P"]["hcap"], "pull_event": {k: v for k, v in t["ev"][1].items() if k in ("k", "prob", "inside", "fc")} if t["ev"][1]["k"] == "pull" else t["ev"][2].get("prob")})
    chk.notes["depth_cap_vs_ranking_depth"] = {"smaller": sum(1 for t in trs if t["P"]["hcap"] < t["P"]["sd"]), "equal": sum(1 for t in trs if t["P"]["hcap"] == t["P"]["sd"]), "larger": sum(1 for t in trs if t["P"]["hcap"] > t["P"]["sd"])}
    chk.assumptions = ["np.random.choice is trusted to sample according to the probability vector it is given; the vector itself, the ranks and the path are checked", "lower confidence values recomputed in fixed point (S = 2^12) with a band of 6 units for the order test", "binary-child partitions only, as the property states"]
    return chk.finish(
        rule="TV: VROOM sessions (n in 8..256, depth cap below / at / above the ranking depth, binary-child partitions, dimensions 1..3, seeded sampling) validated by Trace_VROOM after every pull and every reward.  Non-trivial = accepted trace with >= 8 rounds.  (No exhaustive model in this round: the generative model would restate the sort; the state count is that of the trace validation.)",
        explanation="Per pull: ranks of every depth 1..sd form a permutation of 1..2^h and are non-increasing in mean - sqrt(ln(4n^3/delta)/(2T)); prob[i] * h * rank = 1/C for every cell and the vector sums to one (2^-20 units); per reward: the credited cells form a root-ward connected descending path from a ranked cell down to the depth cap, every expansion of the round lies on it, and the returned point lies inside every cell of the path.",
    )
