# -*- coding: utf-8 -*-
"""C13 - VROOM samples cells from the rank-based distribution and points inside the cell."""
import random

from .. import common as C
from .. import framework as F
from .. import session as S
from .. import vroomsession as V
from .. import algos as A
from . import partcommon as PC

BIN_KINDS = [("bin", 2), ("rbin", 2), ("kary", 2), ("rkary", 2)]


def cfgs(tier):
    rnd = random.Random(C.seed() + 97)
    out = []
    i = 2100000
    for rep in range(36 if tier == "quick" else 200):
        kind, Kk = rnd.choice(BIN_KINDS + [("dbin", 2)])
        D = 1 if kind == "dbin" else rnd.choice([1, 1, 2, 3])
        box = rnd.choice([b for b in PC.BOXES if len(b) == D])
        n = rnd.choice([8, 16, 40, 64, 100]) if tier == "quick" else rnd.choice([8, 16, 50, 100, 128, 200, 256])
        sd = n.bit_length() - 1
        hm = rnd.choice([max(1, sd - 2), sd, sd + 3, sd + 6] + ([100] if n <= 40 else []))
        i += 1
        out.append({"id": i, "algo": "VROOM", "kind": kind, "K": Kk, "D": D, "box": box, "n": n, "T": n, "prm": {"h_max": hm, "b": rnd.choice([1, 0.5, 2]), "f_max": rnd.choice([1, 2])},
                    "pattern": rnd.choice(["g01", "peak", "bern", "gneg", "const"]), "seed": rnd.randrange(1 << 30),
                    "midq": sorted(rnd.sample(range(n), min(n, 4))) if rep % 3 == 2 else [], "preq": rep % 4 == 1, "rtype": [None, "f32", "f64", "i64", "int", None][rep % 6]})
    return out


def models_and_replay(chk, tier):
    import json, os
    cfgs, expected = [], {}
    i = 2150000
    c = V.vroom_consts(4, 1, 1)
    for hcap in (1, 2, 3):
        R = 3 if tier == "quick" or hcap == 3 else 4
        P = {"kind": "kary", "K": 2, "D": 1, "metric": "rank", "sd": c["sd"], "hcap": hcap, "S": V.S, "RU": 1, "w2": c["w2"], "invC": c["invC"], "band": 0, "rewards": [0, 1], "R": R, "emit": 0}
        for emit in (0, 1):
            P["emit"] = emit
            if emit:
                P["R"] = 2
            pj = os.path.join(chk.wd, "vroom_h%d_%d.json" % (hcap, emit))
            json.dump(P, open(pj, "w"))
            cfg = chk.write_cfg("vroom_h%d_%d" % (hcap, emit), None, invariants=(["Emit"] if emit else ["InvRanks", "InvChain", "InvProbSum", "InvHistory", "InvCountLaw", "InvStruct"]))
            os.environ["MC_PARAMS"] = pj
            try:
                r = chk.mc("MC_VROOM.tla", cfg, "vroom_h%d%s" % (hcap, "_emit" if emit else ""), count=not emit)
            finally:
                os.environ.pop("MC_PARAMS", None)
            if emit:
                beh = F.parse_behaviours(r.stdout)
                chk.notes.setdefault("behaviours_enumerated", {})["hcap%d" % hcap] = len(beh)
                rnd = random.Random(C.seed() + hcap)
                rnd.shuffle(beh)
                for h in beh[: (60 if tier == "quick" else 400)]:
                    i += 1
                    cfgs.append({"id": i, "algo": "VROOM", "kind": "bin", "K": 2, "D": 1, "box": [[0.0, 1.0]], "n": 4, "T": len(h), "prm": {"h_max": hcap, "b": 1, "f_max": 1}, "RU": 1,
                                 "script": [[x[0][0] - 2, list(x[2])] for x in h], "rewards": [x[1] for x in h], "seed": 1, "glp": False})
                    expected[i] = [list(x[0]) for x in h]
                if len(chk.samples) < 2 and beh:
                    chk.sample({"tlc_behaviour(chain of credited cells, reward, descent signs)": beh[0], "depth_cap": hcap})
    chk.exhaustive = True
    trs = S.pmap(V.run_vroom, cfgs)
    for t in trs:
        if "machinery" in t:
            raise C.Machinery(t["machinery"])
    # an implementation that consumes the scripted draws differently from the behaviour is not a harness failure: its trace
    # is judged by Trace_VROOM like any other, and its credited path is compared with the behaviour's below
    chk.notes["replay_runs_that_consumed_the_scripted_draws_differently"] = sum(1 for t in trs if "script_mismatch" in t)
    chk.validate("Trace_VROOM.tla", "Trace_VROOM.cfg", trs, "vreplay", own=["vroom."], chunk=200, nontrivial=lambda t: True)
    agree = 0
    for t in trs:
        obs = [sorted(x[0] for x in e["fc"]) for e in t["ev"] if e["k"] == "recv"]
        if obs == [sorted(ch) for ch in expected[t["id"]]]:
            agree += 1
    chk.notes["replay"] = {"behaviours_replayed_with_scripted_sampling": len(trs), "credited_path_equals_the_behaviours_path": agree}
    if agree != len(trs):
        chk.violations.append(({"source": "replay", "what": "credited path differs from the TLC behaviour under scripted sampling", "agree": agree, "of": len(trs)}, os.path.join(chk.wd, "vreplay_000.json")))


def run(tier):
    chk = F.Check("C13", tier)
    models_and_replay(chk, tier)
    trs = [t for t in S.pmap(V.run_vroom, cfgs(tier)) if "skipped" not in t]
    chk.validate("Trace_VROOM.tla", "Trace_VROOM.cfg", trs, "vroom", own=["vroom."], chunk=40, nontrivial=lambda t: sum(1 for e in t["ev"] if e["k"] == "pull") >= 8)
    t = trs[0]
    chk.sample({"cfg": t["cfg"], "sd": t["P"]["sd"], "hcap": t["P"]["hcap"], "pull_event": {k: v for k, v in t["ev"][1].items() if k in ("k", "prob", "inside", "fc")} if t["ev"][1]["k"] == "pull" else t["ev"][2].get("prob")})
    chk.notes["depth_cap_vs_ranking_depth"] = {"smaller": sum(1 for t in trs if t["P"]["hcap"] < t["P"]["sd"]), "equal": sum(1 for t in trs if t["P"]["hcap"] == t["P"]["sd"]), "larger": sum(1 for t in trs if t["P"]["hcap"] > t["P"]["sd"])}
    chk.assumptions = ["np.random.choice is trusted to sample according to the probability vector it is given; the vector itself, the ranks and the path are checked", "lower confidence values recomputed in fixed point (S = 2^12) with a band of 6 units for the order test", "binary-child partitions only, as the property states"]
    return chk.finish(
        rule="TV: VROOM sessions (n in 8..256, depth cap below / at / above the ranking depth, binary-child partitions, dimensions 1..3, seeded sampling) validated by Trace_VROOM after every pull and every reward.  Non-trivial = accepted trace with >= 8 rounds.  MC: MC_VROOM on the complete tree of ranking depth 2 with depth caps 1, 2, 3 (below / at / above the ranking depth), every reward sequence, every admissible ranking, every drawn cell and descent; its behaviours are replayed into the implementation with np.random.choice / randint / uniform scripted.",
        explanation="Per pull: ranks of every depth 1..sd form a permutation of 1..2^h and are non-increasing in mean - sqrt(ln(4n^3/delta)/(2T)); prob[i] * h * rank = 1/C for every cell and the vector sums to one (2^-20 units); per reward: the credited cells form a root-ward connected descending path from a ranked cell down to the depth cap, every expansion of the round lies on it, and the returned point lies inside every cell of the path.",
    )
