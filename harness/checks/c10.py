# -*- coding: utf-8 -*-
"""C10 - POO routes each round to one base learner and scores learners by true means."""
from .. import framework as F
from .. import session as S
from .. import wraprec as W
from . import wrapcommon as WC


def run(tier):
    chk = F.Check("C10", tier)
    WC.poo_models(chk, tier)
    WC.poo_real_tables(chk, tier)
    trs = S.pmap(W.run_wrap, WC.poo_cfgs(tier, 1000000))
    chk.validate("Trace_Wrap.tla", "Trace_Wrap.cfg", trs, "poo", own=["poo."], nontrivial=lambda t: t["learners"] >= 5)
    t = trs[0]
    chk.sample({"cfg": t["cfg"], "thr": t["P"]["thr"], "events": t["ev"][1:4]})
    chk.notes["learners_created_total"] = sum(t["learners"] for t in trs)
    chk.assumptions = ["the branch condition N <= 0.5 Dmax ln(n/ln n) enters as a threshold table from gen_consts; rho_max within 1e-9 of a threshold is redrawn", "scores are logged at 2^-16 and compared with the exact rational mean of the grid rewards (unit 1/4)"]
    return chk.finish(
        rule="MC: POO schedule with every threshold oracle over a grid and every reward sequence, carrying the running mean as coded; TV: POO sessions over rho_max in [0.84, 0.995], base learner, partition, reward pattern, with recommendation queries inserted, validated by Trace_Wrap.  Non-trivial = accepted session with >= 5 learners.",
        explanation="Observed learner pulls/rewards per call equal POO.tla's Pull/Receive (one learner per round, reward to that learner only), learners only added with rho from the grid, V_reward/Times equal the exact mean/count of the independently recorded rewards after every round, get_last_point is a pull of a best-scoring learner.",
    )
