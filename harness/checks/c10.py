# -*- coding: utf-8 -*-
"""C10 - POO routes each round to one base learner and scores learners by true means."""
from .. import framework as F
from .. import session as S
from .. import wraprec as W
from . import wrapcommon as WC


def exact_threshold_rhomax():
    """rho_max values for which the branch condition N <= 0.5 Dmax ln(n/ln n) holds with EQUALITY in float64 at a
    state the schedule reaches -- the boundary of the creation / round-robin decision (found by scanning the
    neighbouring doubles of the real solution with the library's own expression; input selection only)"""
    import math
    import numpy as np
    out = []
    for (N, n) in ((4, 20), (4, 8), (8, 40), (16, 80), (8, 56)):
        f = math.log(n / math.log(n))
        r = math.exp(-0.5 * math.log(2) * f / N)
        cand = r
        for _ in range(400):
            cand = math.nextafter(cand, 0.0)
        for _ in range(800):
            cand = math.nextafter(cand, 1.0)
            dmax = np.log(2) / np.log(1 / cand)
            if 0.5 * dmax * np.log(n / np.log(n)) == N and 2 <= 0.5 * dmax * np.log(2 / np.log(2)):
                out.append((cand, N, n))
                break
    return out


def exact_threshold_sessions(chk, tier):
    """at such a rho_max the real-valued condition is undecidable for the tables, but pull and receive_reward must
    still take the SAME branch: the trace has to be explained by the table with Cr(N,n) true or by the one with
    Cr(N,n) false"""
    import copy, os, json
    from .. import consts as K
    from .. import common as C
    found = exact_threshold_rhomax()
    chk.notes["exact_threshold_rhomax"] = [list(x) for x in found]
    jobs = []
    for j, (rm, N, n) in enumerate(found):
        for base in ("T_HOO", "HCT"):
            jobs.append({"id": 1050000 + 10 * j + (0 if base == "T_HOO" else 1), "algo": "POO", "kind": "bin", "K": 2, "D": 1, "box": [[0.0, 1.0]], "n": 150, "T": 150,
                         "prm": {"rhomax": rm, "numax": 1, "base": base}, "pattern": "g", "seed": 99 + j, "_Nn": (N, n)})
    if not jobs:
        return
    trs = S.pmap(W.run_wrap, jobs) if len(jobs) >= 4 else [W.run_wrap(c) for c in jobs]
    variants = []
    for t, c in zip(trs, jobs):
        if "machinery" in t:
            raise C.Machinery(t["machinery"])
        N, n = c["_Nn"]
        k = N.bit_length() - 1
        for v, thr_k in enumerate((n, n + N)):          # Cr(N, n) true / false
            tv = copy.deepcopy(t)
            tv["id"] = t["id"] * 10 + v
            tv["P"]["thr"] = list(t["P"]["thr"])
            tv["P"]["thr"][k] = thr_k
            tv["P"]["amb"] = 0
            variants.append(tv)
    verd, st, ds, cmd = C.validate_traces("Trace_Wrap.tla", "Trace_Wrap.cfg", variants, chk.wd, "exact")
    chk.states += ds
    chk.transitions += st
    chk.traces_validated += len(trs)
    for t in trs:
        a, b = verd[t["id"] * 10], verd[t["id"] * 10 + 1]
        if a[0] != "ok" and b[0] != "ok":
            cl = a[0] if a[0].startswith("poo.") else b[0]
            if cl.startswith("poo."):
                path = os.path.join(C.OUT, "replay", "C10_exact_%s.json" % t["id"])
                os.makedirs(os.path.dirname(path), exist_ok=True)
                json.dump({"module": "Trace_Wrap.tla", "cfg": "Trace_Wrap.cfg", "verdict": [cl, a[1]], "trace": t}, open(path, "w"))
                chk.violations.append(({"clause": cl, "what": "no branch table explains the run at an exact-threshold rho_max", "rhomax": t["cfg"]["prm"]["rhomax"], "verdicts": [a[:2], b[:2]]}, path))
        else:
            chk.nontrivial.add(F.trace_key(t))


def run(tier):
    chk = F.Check("C10", tier)
    WC.poo_models(chk, tier)
    WC.poo_real_tables(chk, tier)
    exact_threshold_sessions(chk, tier)
    trs = S.pmap(W.run_wrap, WC.poo_cfgs(tier, 1000000))
    chk.validate("Trace_Wrap.tla", "Trace_Wrap.cfg", trs, "poo", own=["poo."], nontrivial=lambda t: t["learners"] >= 5)
    t = trs[0]
    chk.sample({"cfg": t["cfg"], "thr": t["P"]["thr"], "events": t["ev"][1:4]})
    chk.notes["learners_created_total"] = sum(t["learners"] for t in trs)
    chk.assumptions = ["the branch condition N <= 0.5 Dmax ln(n/ln n) enters as a threshold table from gen_consts; rho_max within 1e-9 of a threshold is redrawn", "scores are logged at 2^-16 and compared with the exact rational mean of the grid rewards (unit 1/4)"]
    return chk.finish(
        rule="MC: POO schedule with every threshold oracle over a grid and every reward sequence, carrying the running mean as coded; TV: POO sessions over rho_max in [0.84, 0.995], base learner, partition, reward pattern, with recommendation queries inserted, validated by Trace_Wrap.  Non-trivial = accepted session with >= 5 learners.",
        explanation="Observed learner pulls/rewards per call equal POO.tla's Pull/Receive (one learner per round, reward to that learner only), learners only added with rho from the grid, V_reward/Times equal the exact mean/count of the independently recorded rewards after every round, get_last_point is a pull of a best-scoring learner.",
    )
