# -*- coding: utf-8 -*-
"""C12 - SequOOL opens cells depth by depth within its harmonic budget."""
from .. import framework as F
from . import seqcommon as QC


def run(tier):
    chk = F.Check("C12", tier)
    trs = QC.sources(chk, tier, ["seq.", "rec."], ["InvBudget", "InvOpenedHaveAllChildrenEvaluated", "InvOpenOrder", "InvStruct"], ["StepExhausted", "StepOpenBest"])
    chk.sample({"cfg": trs[0]["cfg"], "hmax": trs[0]["P"]["hmax"], "events": trs[0]["ev"][1:5]})
    chk.assumptions = ["hmax = floor(n/H_n) from exact rational H_n (harness); rewards on a grid, ties and negatives included"]
    return chk.finish(
        rule="MC: SequOOL model for hmax in 1..4, K in {2,3}, every reward sequence over 2-3 letters and every tie-break, run past exhaustion; replay: one implementation run per enumerated reward sequence (n = 3, 5, 9 give hmax = 1, 2, 3); TV: sessions with n in 10..1000 over all partitions.  Non-trivial = accepted trace with >= 3 openings.",
        explanation="Each make_children must open a cell in Targets (unopened, current depth, maximal reward), each pull must hand out the next child in list order of the cell being opened (never a cell evaluated before), the opened flag flips exactly at the last child, per-depth budgets floor(hmax/h) and the depth limit are checked on the final state, and after exhaustion pulls return the root's centre without touching anything but the root's reward list.",
    )
