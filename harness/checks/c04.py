# -*- coding: utf-8 -*-
"""C04 - every reward is credited exactly once to the cell(s) that produced the point."""
from .. import session as S
from .. import wraprec as W
from . import tbcommon as TC
from . import wrapcommon as WC


def extra(chk):
    tier = chk.tier
    trs = S.pmap(W.run_wrap, WC.gpo_cfgs(tier, 1300000)[: (12 if tier == "quick" else 80)] + WC.poo_cfgs(tier, 1310000)[: (12 if tier == "quick" else 80)])
    chk.validate("Trace_Wrap.tla", "Trace_Wrap.cfg", trs, "wrap", own=["gpo.schedule", "gpo.score", "poo.route", "poo.score", "poo.times"], nontrivial=lambda t: t["learners"] >= 2)


def run(tier):
    return TC.full_check(
        "C04", tier, own=["credit.", "stats."],
        rule="MC: TreeBandit model with the history variable (evidence of every cell = fold of the history, counts sum to rounds); replay; TV: grid-mode sessions of T_HOO/HCT/VHCT with the all-differences recorder (after every round exactly the credited cells change by (+1, +r, +r^2)); POO/GPO/PCT/VPCT sessions observed through the recording learner class.  Non-trivial = accepted trace with >= 1 expansion and >= 2 distinct pulled cells (wrappers: >= 2 learners).",
        explanation="Credit set: path to the pulled cell (T-HOO), the pulled cell (HCT/VHCT), the serving learner or the validation score (POO/GPO).  Reward-list length = count, logged mean / variance equal the exact statistics of the credited rewards, no other cell's evidence changes, counts total the completed rounds.",
        extra=extra,
    )
