# -*- coding: utf-8 -*-
"""C04 - every reward is credited exactly once to the cell(s) that produced the point."""
from .. import session as S
from .. import wraprec as W
from .. import soosession as SS
from .. import zoomsession as Z
from .. import vroomsession as V
from . import tbcommon as TC
from . import wrapcommon as WC
from . import soocommon as SC
from . import seqcommon as QC


_VSTART = {}


def validation_start(n):
    """(round at which StroquOOL's cross-validation begins, h_max) for budget n, from the schedule of StroquOOL.tla
    (TotalCost without the validation part) -- computed, not observed: the library is not run to build inputs"""
    if n not in _VSTART:
        from decimal import Decimal
        from .. import consts as K
        hs = sum(Decimal(1) / i for i in range(1, n + 1))
        hmax = K.dfloor(Decimal(n) / (2 * (hs + 1) ** 2))
        if hmax < 1:
            _VSTART[n] = (None, hmax)
        else:
            cost = 2 * hmax
            for d in range(1, hmax + 1):
                P = (hmax // d).bit_length() - 1
                cost += 2 ** (P + 2) - 2
            _VSTART[n] = (cost + 1, hmax)
    return _VSTART[n]


def stro_cfgs(tier, base_id):
    import random
    from .. import common as C
    from .. import algos as A
    from . import partcommon as PC
    rnd = random.Random(C.seed() + 211)
    out = []
    for i in range(18 if tier == "quick" else 90):
        kind, Kk = rnd.choice(A.PART_KINDS)
        D = rnd.choice([1, 1, 2]) if kind != "dbin" else 1
        n = rnd.choice([100, 300, 600, 1000]) if tier == "quick" else rnd.choice([100, 300, 1000, 2000, 3000])
        t0, hm = validation_start(n)
        inside = [t0 + 1, t0 + hm + 1, t0 + 2 * hm + 2] if t0 else [n]
        T = [n, n // 2, min(n, inside[0]), min(n, inside[1]), min(n, inside[2]), n][i % 6]
        out.append({"id": base_id + i, "algo": "StroquOOL", "kind": kind, "K": Kk, "D": D, "box": rnd.choice([b for b in PC.BOXES if len(b) == D]), "n": n, "T": T, "prm": {},
                    "pattern": rnd.choice(["g01", "peak", "tied", "gneg"]), "shift": rnd.choice([0, 0, -1]), "seed": rnd.randrange(1 << 30)})
    return out


def extra(chk):
    tier = chk.tier
    trs = S.pmap(W.run_wrap, WC.gpo_cfgs(tier, 1300000)[: (12 if tier == "quick" else 80)] + WC.poo_cfgs(tier, 1310000)[: (12 if tier == "quick" else 80)])
    chk.validate("Trace_Wrap.tla", "Trace_Wrap.cfg", trs, "wrap", own=["gpo.schedule", "gpo.point", "gpo.score", "poo.route", "poo.score", "poo.times"], nontrivial=lambda t: t["learners"] >= 2)
    own = ["credit.", "stats."]
    k = 18 if tier == "quick" else 150
    trs = [t for t in S.pmap(SS.run_soo, SC.random_cfgs(tier, 1320000)[:k]) if "skipped" not in t]
    chk.validate("Trace_SOO.tla", "Trace_SOO.cfg", trs, "soo", own=own, nontrivial=SC.nontrivial)
    trs = [t for t in S.pmap(SS.run_soo, QC.random_cfgs(tier, 1330000)[:k]) if "skipped" not in t]
    chk.validate("Trace_Seq.tla", "Trace_Seq.cfg", trs, "seq", own=own, nontrivial=lambda t: len(t["ev"]) > 20)
    trs = [t for t in S.pmap(SS.run_soo, stro_cfgs(tier, 1340000)) if "skipped" not in t]
    chk.validate("Trace_Stro.tla", "Trace_Stro.cfg", trs, "stro", own=own, chunk=20, nontrivial=lambda t: any(e["k"] == "pull" and any(x[2] == 0 and x[1] > 0 for x in e.get("fc", [])) for e in t["ev"]))
    from . import strocommon as ST
    ST.sources(chk, tier, own)
    from . import c11, c13
    trs = S.pmap(Z.run_zoom, c11.cfgs(tier)[: (12 if tier == "quick" else 100)])
    chk.validate("Trace_Zoom.tla", "Trace_Zoom.cfg", trs, "zoom", own=["zoom.stats", "zoom.foreign-stats"], nontrivial=lambda t: t["arms"] >= 3)
    trs = [t for t in S.pmap(V.run_vroom, c13.cfgs(tier)[: (10 if tier == "quick" else 80)]) if "skipped" not in t]
    chk.validate("Trace_VROOM.tla", "Trace_VROOM.cfg", trs, "vroom", own=own + ["vroom.credit-not-a-path"], chunk=40, nontrivial=lambda t: len(t["ev"]) > 20)


def run(tier):
    return TC.full_check(
        "C04", tier, own=["credit.", "stats."],
        rule="MC: TreeBandit model with the history variable (evidence of every cell = fold of the history, counts sum to rounds); replay; TV: grid-mode sessions of T_HOO/HCT/VHCT with the all-differences recorder (after every round exactly the credited cells change by (+1, +r, +r^2)); POO/GPO/PCT/VPCT sessions observed through the recording learner class; SOO/StoSOO/DOO, SequOOL, StroquOOL, Zooming and VROOM sessions validated by their trace specifications (credit clauses).  Non-trivial = accepted trace with >= 1 expansion and >= 2 distinct pulled cells (wrappers: >= 2 learners).",
        explanation="Credit set: path to the pulled cell (T-HOO), the pulled cell (HCT/VHCT), the serving learner or the validation score (POO/GPO), the cell handed out (SOO/DOO/StoSOO/SequOOL), the played arm (Zooming), the drawn cell and the descendants on the sampling path (VROOM).  Reward-list length = count, logged mean / variance equal the exact statistics of the credited rewards, no other cell's evidence changes, counts total the completed rounds.",
        extra=extra,
    )
