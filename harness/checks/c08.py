# -*- coding: utf-8 -*-
"""C08 - SOO, StoSOO and DOO evaluate and expand cells by their optimistic rule."""
from . import soocommon as SC


def run(tier):
    return SC.full_check(
        "C08", tier, own=["sweep."],
        rule="MC: SOOFamily micro-step model (begin / expand / hand out / receive) for K in {2,3}, depth caps, k in {1,2,3}, every reward sequence over 2-3 letters (ties, negatives) up to R rounds and every admissible choice; replay: one implementation run per reward sequence of the enumerated behaviours, compared literally with the enumerated set; TV: grid-mode sessions over partitions, dimensions, budgets, k, delta.  Non-trivial = accepted trace with >= 3 expansions.",
        explanation="Each make_children of a pull must be the expansion Point() admits at the sweep cursor <<h, vmax>> (no unevaluated leaf at a smaller or equal depth first, best of its depth, >= vmax, evaluated / evaluated k times; DOO: global max of reward + delta(depth), one per pull) and the cell handed out must be in the admissible return set; StoSOO's b within Tol of mean + sqrt(ln(nk/delta)/(2T)); DOO's b - reward is one function of the depth (the user's table when given).",
    )
