# -*- coding: utf-8 -*-
"""C09 - GPO / PCT / VPCT run the published schedule of base learners and validation."""
from .. import framework as F
from .. import session as S
from .. import wraprec as W
from . import wrapcommon as WC


def sig(tr, clause, line):
    return {"N": tr["P"].get("N"), "half": tr["P"].get("half")}


def inductive(chk):
    """Apalache: IndInv of spec/apalache/APA_GPO.tla (the schedule as a counter machine, N and H symbolic) is inductive --
    the schedule invariants for every N >= 1 and H >= 1, not only the enumerated pairs; a late phase end must be refuted"""
    import os, subprocess, time
    from .. import common as C
    out = os.path.join(chk.wd, "apa")
    done = []

    def apa(label, extra, want_ok):
        cmd = ["apalache-mc", "check", "--cinit=ConstInit", "--inv=IndInv", "--out-dir=" + out] + extra + ["APA_GPO.tla"]
        t = time.time()
        p = subprocess.run(cmd, cwd=os.path.join(C.SPEC, "apalache"), stdout=subprocess.PIPE, stderr=subprocess.STDOUT, text=True, timeout=900)
        ok = "The outcome is: NoError" in p.stdout
        bad = "The outcome is: Error" in p.stdout
        if not ok and not bad:
            raise C.Machinery("apalache failed: " + p.stdout[-1500:])
        done.append({"obligation": label, "discharged": ok, "s": round(time.time() - t, 1), "cmd": " ".join(cmd)})
        chk.cmds.append(" ".join(cmd))
        if want_ok and not ok:
            chk.violations.append(({"source": "apalache", "obligation": label}, out))
        if not want_ok and ok:
            raise C.Machinery("negative control (phases ending one round late) was not refuted by Apalache")
    apa("Init => IndInv", ["--init=Init", "--length=0"], True)
    apa("IndInv /\\ Next => IndInv'", ["--init=IndInit", "--length=1"], True)
    apa("negative control: NextLate breaks IndInv", ["--init=IndInit", "--next=NextLate", "--length=1"], False)
    chk.notes["inductive_invariant_apalache(all N, H >= 1)"] = done


def run(tier):
    chk = F.Check("C09", tier)
    WC.gpo_models(chk, tier)
    inductive(chk)
    WC.gpo_real_pairs(chk, tier)
    trs = S.pmap(W.run_wrap, WC.gpo_cfgs(tier, 900000))
    chk.validate("Trace_Wrap.tla", "Trace_Wrap.cfg", trs, "gpo", own=["gpo."], sigfn=sig, nontrivial=lambda t: t["learners"] >= 2)
    t = trs[0]
    chk.sample({"cfg": t["cfg"], "N": t["P"]["N"], "half": t["P"]["half"], "rho_table_head": t["P"]["rho"][:3], "events": t["ev"][1:4]})
    chk.notes["learners_created_total"] = sum(t["learners"] for t in trs)
    chk.assumptions = ["N and half are taken from gen_consts (60-digit decimal evaluation of the published formula); configurations within 1e-9 of a ceil/floor discontinuity are redrawn", "half >= 1 (half = 0 is the C01 finding F11)"]
    return chk.finish(
        rule="MC: the GPO schedule model for every (N, half) in a grid, all reward sequences over a 1-2 letter alphabet, run to completion; TV: GPO/PCT/VPCT sessions (random n, rho_max, nu_max, base learner, partition, reward pattern) observed through a recording base-learner class and validated by Trace_Wrap.  Non-trivial = accepted session in which >= 2 base learners were created.",
        explanation="Every public call's observed learner constructions / pulls / rewards must equal those predicted by GPO.tla's Pull/Receive; rho of learner i within 2e-6 of rho_max^(2N/(2i+1)); validation scores equal the mean of exactly the validation rewards; final pulls and get_last_point return a best validated point.",
    )
