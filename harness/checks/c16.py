# -*- coding: utf-8 -*-
"""C16 - algorithms see the domain only through the partition (affine equivariance)."""
import random

from .. import common as C
from .. import framework as F
from .. import session as S
from .. import algos as A
from . import paircommon as PC2

DYADIC_BOXES = {1: [[[0.0, 1.0]], [[-2.0, 6.0]], [[0.5, 0.75]]], 2: [[[0.0, 1.0], [0.0, 1.0]], [[-4.0, 4.0], [1.0, 3.0]]], 3: [[[0.0, 1.0], [-1.0, 0.0], [2.0, 4.0]]]}
EXACT_TRANSLATION_KINDS = [("bin", 2), ("dbin", 2), ("kary", 2), ("kary", 4)]


def image(box, scale, shift):
    """uniform positive scaling followed by a translation (a number, or one component per coordinate)"""
    sh = shift if isinstance(shift, (list, tuple)) else [shift] * len(box)
    return [[sh[x] + scale * lo, sh[x] + scale * hi] for x, (lo, hi) in enumerate(box)]


def models(chk, tier):
    grid = [("bin", 2, 2, 8, 9, 3, 3, 5), ("rbin", 2, 1, 3, 7, 3, 2, -7), ("kary", 3, 1, 27, 10, 3, 4, 1), ("dbin", 2, 2, 4, 9, 2, 5, -2), ("rkary", 3, 1, 2, 7, 2, 3, 100)]
    if tier != "quick":
        grid += [("bin", 2, 2, 8, 13, 3, 7, -3), ("rbin", 2, 2, 3, 7, 3, 2, 9), ("rkary", 3, 2, 2, 7, 2, 6, 0), ("kary", 4, 1, 64, 13, 3, 2, 11)]
    for (kind, K, D, W, mc, md, sc, sh) in grid:
        label = "affine_%s_K%d_D%d" % (kind, K, D)
        cfg = chk.write_cfg(label, {"Kind": kind, "KK": K, "DD": D, "W": W, "MaxCells": mc, "MaxDepth": md, "Scale": sc, "Shift": abs(sh), "Neg": sh < 0},
                            invariants=["InvCutLawInvariant", "InvSameStructure", "InvImageBoxes", "InvOrderPreserved"])
        chk.mc("MC_Affine.tla", cfg, label)
    chk.exhaustive = True


def run(tier):
    chk = F.Check("C16", tier)
    models(chk, tier)
    rnd = random.Random(C.seed() + 29)
    jobs, plan = [], []
    k = 0
    reps = 6 if tier == "quick" else 60
    for algo in A.ALGO_NAMES:
        for rep in range(reps):
            what = ["scale2k", "translate-dyadic", "approx"][rep % 3]
            if what == "translate-dyadic":
                kind, Kk = rnd.choice(EXACT_TRANSLATION_KINDS)
            else:
                kind, Kk = rnd.choice(A.PART_KINDS)
            if algo == "VROOM":
                kind, Kk = ("bin", 2) if what == "translate-dyadic" else rnd.choice([("bin", 2), ("rbin", 2)])
            D = rnd.choice([1, 2]) if kind != "dbin" else rnd.choice([1, 2])
            box = rnd.choice(DYADIC_BOXES[D])
            prm = {}
            if algo in ("POO", "GPO", "PCT", "VPCT"):
                prm = {"rhomax": 0.9, "base": rnd.choice(["T_HOO", "HCT", "VHCT"])}
            if algo == "VROOM":
                prm = {"h_max": 8}
                if what != "scale2k":
                    continue   # the uniform draw lo + (hi-lo)u rounds differently after a shift / a non-dyadic scaling: VROOM is compared under exact scalings only
            if algo == "Zooming" and what == "approx":
                continue       # Zooming's containment test reads coordinates: exact maps only
            if algo == "DOO":
                if what == "translate-dyadic":
                    pass       # default delta is translation equivariant
                else:
                    prm = {"delta_kind": "pow2"}   # default delta depends on cell size (documented exception)
            if what == "scale2k":
                scale, shift = rnd.choice([0.125, 4.0, 1024.0, 2.0 ** -20, 2.0 ** -30, 2.0 ** -40, 2.0 ** 20]), 0.0
                mode, tol = "exact", 0
            elif what == "translate-dyadic":
                scale, shift = 1.0, rnd.choice([1.0, -8.0, 64.0, 0.5, 4096.0, -65536.0, 1048576.0])
                if D >= 2 and rep % 2 == 1:     # a translation is a vector: unequal components
                    shift = [rnd.choice([0.0, 1.0, -8.0, 64.0, 0.5, 4096.0, -65536.0]) for _ in range(D)]
                    if len(set(shift)) == 1:
                        shift[0] += 16.0
                mode, tol = "exact", 0
                if kind in ("rbin", "rkary"):
                    mode, tol = "approx", 3
            else:
                scale, shift = rnd.choice([3.0, 0.1, 7.3]), rnd.choice([0.1, -3.7, 100.3])
                if D >= 2 and rep % 2 == 0:
                    shift = [rnd.choice([0.1, -3.7, 100.3, 0.0, 12.5]) for _ in range(D)]
                mode, tol = "approx", 3
            n = 100
            k += 2
            base = {"algo": algo, "kind": kind, "K": Kk, "D": D, "n": n, "T": n, "prm": prm, "pattern": rnd.choice(PC2.SAFE_PATTERNS), "seed": rnd.randrange(1 << 30)}
            if algo in ("POO", "GPO", "PCT", "VPCT", "StoSOO", "StroquOOL", "SequOOL", "DOO", "SOO") and rep % 2 == 0:
                # recommendations asked in the middle of the run are part of the comparison (half of them on negative rewards:
                # a default value such as 0 or the origin must not stand in for "nothing yet")
                base["queries"] = sorted(rnd.sample(range(n), 8))
                if rep % 4 == 0:
                    base["pattern"] = "neg"
            a = dict(base, id=6000000 + k, box=box)
            b = dict(base, id=6000001 + k, box=image(box, scale, shift))
            jobs += [a, b]
            plan.append((a["id"], b["id"], mode, tol, {"what": what, "scale": scale, "shift": shift}))
    # Zooming is the one algorithm that compares coordinates: far-away and tiny images, fast-refining parameters
    for (kind, Kk, D) in (("bin", 2, 1), ("dbin", 2, 2), ("kary", 3, 1), ("kary", 2, 2)):
        for (scale, shift) in ((1.0, 1048576.0), (1.0, 4096.0), (2.0 ** -40, 0.0), (1.0, -65536.0), (1.0, 2.0 ** 30), (1.0, -(2.0 ** 36))):
            k += 2
            base = {"algo": "Zooming", "kind": kind, "K": Kk, "D": D, "n": 300, "T": 300, "prm": rnd.choice([{"nu": 4, "rho": 0.5}, {"nu": 64, "rho": 0.5}, {"nu": 32, "rho": 0.7}]), "pattern": rnd.choice(PC2.SAFE_PATTERNS), "seed": rnd.randrange(1 << 30)}
            box = DYADIC_BOXES[D][0]
            if kind == "kary" and Kk == 3 and shift != 0.0:
                continue          # linspace thirds are not translation-exact
            jobs += [dict(base, id=6000000 + k, box=box), dict(base, id=6000001 + k, box=image(box, scale, shift))]
            plan.append((6000000 + k, 6000001 + k, "exact", 0, {"what": "scale2k" if shift == 0.0 else "translate-dyadic", "scale": scale, "shift": shift}))
    # translations by a vector with unequal components (D >= 2): a test that mixes up the coordinates survives uniform shifts
    for (kind, Kk, D) in (("bin", 2, 2), ("dbin", 2, 2), ("kary", 2, 2), ("kary", 4, 2), ("bin", 2, 3)):
        for algo in ("Zooming", "T_HOO", "DOO", "SOO", "SequOOL", "HCT"):
            shift = [[0.0, 8.0, -4.0], [-4.0, 2.0, 64.0], [16.0, -0.5, 0.0]][(k // 2) % 3][:D]
            for prm in (({"nu": 4, "rho": 0.5}, {"nu": 32, "rho": 0.7}) if algo == "Zooming" else ({},)):   # fast-refining: many hand-overs of the arm
                k += 2
                base = {"algo": algo, "kind": kind, "K": Kk, "D": D, "n": 150, "T": 150, "prm": prm, "pattern": rnd.choice(PC2.SAFE_PATTERNS), "seed": rnd.randrange(1 << 30)}
                box = DYADIC_BOXES[D][0]
                jobs += [dict(base, id=6000000 + k, box=box), dict(base, id=6000001 + k, box=image(box, 1.0, shift))]
                plan.append((6000000 + k, 6000001 + k, "exact", 0, {"what": "translate-dyadic", "scale": 1.0, "shift": shift}))
    # random partitions far from the origin: a tolerance that scales with |x| (isclose, rounding to n decimals) treats a draw
    # near a cell boundary differently in the image; positions are compared to 3 units of 2^-30 (the draw lo + (hi-lo)u itself
    # rounds to an ulp of the shifted coordinates, 1/4 unit at 2^20)
    for (kind, Kk) in (("rbin", 2), ("rkary", 3), ("rkary", 4)):
        for algo in ("DOO", "SOO", "T_HOO", "HCT", "SequOOL", "StoSOO"):
            shift = [4096.0, 65536.0, 1048576.0, -1048576.0][(k // 2) % 4]
            k += 2
            prm = {"delta_kind": "pow2"} if algo == "DOO" and k % 4 == 0 else {}
            base = {"algo": algo, "kind": kind, "K": Kk, "D": 1, "n": 200, "T": 200, "prm": prm, "pattern": rnd.choice(PC2.SAFE_PATTERNS), "seed": rnd.randrange(1 << 30)}
            box = DYADIC_BOXES[1][0]
            jobs += [dict(base, id=6000000 + k, box=box), dict(base, id=6000001 + k, box=image(box, 1.0, shift))]
            plan.append((6000000 + k, 6000001 + k, "approx", 3, {"what": "translate-dyadic", "scale": 1.0, "shift": shift}))
    # DOO's default diameter function reads the cells' coordinates: translations across the origin (cells whose
    # centres change sign) and far away from it
    for (kind, Kk, D) in (("bin", 2, 1), ("kary", 2, 1), ("kary", 4, 1), ("dbin", 2, 2), ("bin", 2, 2)):
        for (box1, shift) in (([0.0, 1.0], -4.0), ([0.0, 1.0], -0.5), ([-2.0, 6.0], 8.0), ([0.5, 0.75], -65536.0), ([0.0, 1.0], 4096.0)):
            k += 2
            base = {"algo": "DOO", "kind": kind, "K": Kk, "D": D, "n": 100, "T": 100, "prm": {}, "pattern": rnd.choice(PC2.SAFE_PATTERNS), "seed": rnd.randrange(1 << 30)}
            box = [list(box1)] + [[0.0, 1.0]] * (D - 1)
            jobs += [dict(base, id=6000000 + k, box=box), dict(base, id=6000001 + k, box=image(box, 1.0, shift))]
            plan.append((6000000 + k, 6000001 + k, "exact", 0, {"what": "translate-dyadic", "scale": 1.0, "shift": shift}))
    # midpoint partitions cut exactly through the arm (cut and centre are the same float in every image), so
    # Zooming's containment decisions survive inexact maps there: compared on structure and positions
    for (kind, Kk, D) in (("bin", 2, 1), ("bin", 2, 2), ("dbin", 2, 2), ("bin", 2, 3)):
        for (scale, shift) in ((3.0, 0.43), (1.0, 0.1), (4.42, 0.49), (0.7, -12.3)):
            k += 2
            base = {"algo": "Zooming", "kind": kind, "K": Kk, "D": D, "n": 200, "T": 200, "prm": {"nu": 4, "rho": 0.5}, "pattern": rnd.choice(PC2.SAFE_PATTERNS), "seed": rnd.randrange(1 << 30)}
            box = DYADIC_BOXES[D][0]
            jobs += [dict(base, id=6000000 + k, box=box), dict(base, id=6000001 + k, box=image(box, scale, shift))]
            plan.append((6000000 + k, 6000001 + k, "approx", 3, {"what": "approx", "scale": scale, "shift": shift}))
    res = {t["id"]: t for t in S.pmap(S.run_session, jobs)}
    pairs = [PC2.pair(i + 1, res[a], res[b], mode=mode, tol=tol, info=info) for i, (a, b, mode, tol, info) in enumerate(plan)]
    chk.validate("Trace_Pair.tla", "Trace_Pair.cfg", pairs, "affine", own=["pair."], nontrivial=lambda p: len(p["a"]) > 40)
    chk.sample({"pair": pairs[0]["cfg"], "first_pull_a": pairs[0]["a"][1] if len(pairs[0]["a"]) > 1 else None, "first_pull_b": pairs[0]["b"][1] if len(pairs[0]["b"]) > 1 else None})
    chk.notes["pairs_by_kind"] = {w: sum(1 for p in pairs if p["cfg"]["what"] == w) for w in ("scale2k", "translate-dyadic", "approx")}
    chk.assumptions = ["exact equality only where the map commutes with float arithmetic (power-of-two scalings; dyadic translations of midpoint / linspace partitions on dyadic boxes); other maps: relative position within 3 units of 2^-30 and identical cells / expansions", "rewards do not depend on the point, so both runs receive the same sequence", "DOO's default delta is compared under translations only (documented exception)"]
    return chk.finish(
        rule="MC: MC_Affine grows a lattice tree and its affine image in lock step for the five partition classes (every cell, split dimension and admissible cut): the image cut is admissible, structures coincide, boxes are images, order relations transfer.  TV: each algorithm x partition is run on a box and on its affine image with the same seed and rewards; Trace_Pair compares the two sessions event by event (exact mode: equal rank codes, hence the image of every point is the point of the image run; approx mode: positions relative to the box within 3e-9).  Non-trivial = accepted pair with > 40 events.",
        explanation="Rank coding is invariant under increasing affine maps, so two equivariant runs yield the same encoded trace; any decision that reads absolute coordinates shows up as a different cell, expansion or position.",
    )
