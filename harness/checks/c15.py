# -*- coding: utf-8 -*-
"""C15 - anytime algorithms ignore the time argument and tolerate recommendation queries."""
import random

from .. import common as C
from .. import framework as F
from .. import session as S
from .. import algos as A
from . import paircommon as PC2

TIME_FREE = ["T_HOO", "HCT", "VHCT", "Zooming", "POO", "GPO", "PCT", "VPCT", "DOO", "SOO", "SequOOL", "VROOM"]
QUERY_OK = ["T_HOO", "HCT", "VHCT", "Zooming", "POO"]


def run(tier):
    chk = F.Check("C15", tier)
    # time labels t0 + i, t0 in {0, 1, 17}
    base = PC2.base_cfgs(tier, 3200000, TIME_FREE, 2 if tier == "quick" else 25)
    jobs = []
    for c in base:
        for t0 in (1, 0, 17):
            jobs.append(dict(c, id=c["id"] + {1: 0, 0: 1, 17: 2}[t0], t0=t0))
    res = {t["id"]: t for t in S.pmap(S.run_session, jobs)}
    pairs = []
    k = 0
    for c in base:
        for off in (1, 2):
            k += 1
            pairs.append(PC2.pair(k, res[c["id"]], res[c["id"] + off], info={"what": "time-labels", "t0": (0, 17)[off - 1]}))
    chk.validate("Trace_Pair.tla", "Trace_Pair.cfg", pairs, "labels", own=["pair."], nontrivial=lambda p: len(p["a"]) > 40)
    # the wrappers once more through the recording base-learner class: the learners must be created with the same arguments
    # (budget, smoothness parameters) and be pulled / rewarded identically whatever the labels are
    from .. import wraprec as W
    wbase = [c for c in PC2.base_cfgs(tier, 3250000, ["GPO", "GPO", "PCT", "VPCT", "POO"], 1 if tier == "quick" else 5, seedoff=9, n_choices=(100, 128)) ]
    for j, c in enumerate(wbase):
        if c["algo"] == "GPO":
            c["prm"] = dict(c["prm"], base=["T_HOO", "HCT", "VHCT"][j % 3])
        c["pattern"] = ["g", "neg", "tied", "const"][j % 4]
    wjobs = [dict(c, id=c["id"] + {1: 0, 0: 1, 17: 2}[t0], t0=t0, RU=4) for c in wbase for t0 in (1, 0, 17)]
    wres = {t["id"]: t for t in S.pmap(W.run_wrap, wjobs)}
    wpairs = []
    for c in wbase:
        for off in (1, 2):
            k += 1
            wpairs.append(PC2.pair(50000 + k, wres[c["id"]], wres[c["id"] + off], info={"what": "time-labels-wrappers", "t0": (0, 17)[off - 1]}))
    chk.validate("Trace_Pair.tla", "Trace_Pair.cfg", wpairs, "wlabels", own=["pair."], nontrivial=lambda p: len(p["a"]) > 40)
    # recommendation queries: schedules from TLC (exhaustive for 4 rounds with up to 2 queries per gap, simulated for long runs)
    scheds = PC2.schedules(chk, "query", 4, 2)
    if tier != "quick":
        scheds += PC2.schedules(chk, "query", 5, 2)
    long = PC2.schedules(chk, "query", 40, 2, simulate="num=%d" % (20 if tier == "quick" else 300), label="query_long")
    rnd = random.Random(C.seed() + 23)
    rnd.shuffle(scheds)
    qbase = PC2.base_cfgs(tier, 3300000, QUERY_OK, 4 if tier == "quick" else 12, seedoff=2, n_choices=(100,), vary=True)
    jobs, plan = [], []
    k = 0
    every = ["A", "A"] + ["A", "A", "Q"] * 89          # a query after every round from the second on
    plan_sc = [(sc, None) for sc in scheds[: (30 if tier == "quick" else 400)] + long] + [(every, c) for c in qbase]
    for sc, fixed in plan_sc:
        c = fixed if fixed is not None else rnd.choice(qbase)
        k += 2
        TT = 90 if fixed is not None else 40
        a = dict(c, id=4000000 + k, T=TT)
        b = PC2.with_queries(dict(c, id=4000001 + k, T=TT), sc)
        jobs += [a, b]
        plan.append((a["id"], b["id"], sc))
    res = {t["id"]: t for t in S.pmap(S.run_session, jobs)}
    pairs = [PC2.pair(100000 + i, res[a], res[b], dropq=1, info={"what": "queries", "nq": sc.count("Q")}) for i, (a, b, sc) in enumerate(plan)]
    chk.validate("Trace_Pair.tla", "Trace_Pair.cfg", pairs, "queries", own=["pair."], nontrivial=lambda p: p["cfg"].get("nq", 0) >= 1)
    chk.sample({"query_schedule_from_tlc": scheds[0], "pair": pairs[0]["cfg"]})
    chk.assumptions = ["StoSOO and StroquOOL read the time argument by design and are not compared", "queries are inserted between rounds only (after receive_reward), as the property states"]
    return chk.finish(
        rule="Time labels: every listed algorithm run with labels t0+i for t0 in {1, 0, 17}, paired with the t0 = 1 run; queries: TLC enumerates all schedules of 0..2 get_last_point calls after each of 4 rounds and simulates long ones (MC_Schedule, mode query), each executed on T_HOO/HCT/VHCT/Zooming/POO and paired (queries dropped) with the query-free run.  Comparison by Trace_Pair.  Non-trivial: accepted pairs with > 40 events (labels) / with at least one inserted query.",
        explanation="The two traces of a pair must agree event by event on points (rank codes and relative position), cells, expansions and the final recommendation.",
    )
