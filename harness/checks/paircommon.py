# -*- coding: utf-8 -*-
"""Shared by C14 / C15 / C16: TLC-generated schedules, paired runs, lock-step comparison by Trace_Pair."""
import json
import os
import random
import subprocess
import sys

from .. import common as C
from .. import framework as F
from .. import session as S
from .. import algos as A
from . import partcommon as PC


def schedules(chk, mode, R, Q, simulate=None, label=None):
    label = label or "sched_%s_R%d_Q%d%s" % (mode, R, Q, "_sim" if simulate else "")
    cfg = chk.write_cfg(label, {"Mode": mode, "R": R, "Q": Q}, invariants=["InvProtocol", "Emit"])
    r = chk.mc("MC_Schedule.tla", cfg, label, workers=1 if simulate else 4, simulate=simulate, count=not simulate, more=(["-depth", str(8 * R + 10), "-seed", str(C.seed() % 100000)] if simulate else []))
    beh = F.parse_behaviours(r.stdout)
    if not beh:
        raise C.Machinery("no schedule emitted by " + label)
    # simulation prints every terminal state of a walk: keep maximal ones
    uniq = []
    seen = set()
    for b in sorted(beh, key=len, reverse=True):
        t = tuple(b)
        if any(t == u[: len(t)] for u in seen):
            continue
        seen.add(t)
        uniq.append(b)
    chk.notes.setdefault("schedules_from_tlc", {})[label] = len(uniq)
    return uniq


def run_two(args):
    """solo runs of A and B, then the interleaving `sched` of fresh instances"""
    cfgA, cfgB, sched = args
    try:
        soloA = S.run_session(cfgA)
        soloB = S.run_session(cfgB)
        a = S.Stepper(dict(cfgA, id=cfgA["id"] + 1))
        b = S.Stepper(dict(cfgB, id=cfgB["id"] + 1), seed_rng=False)
        for who in sched:
            st = a if who == "A" else b
            if not st.done():
                st.step()
        while not a.done():
            a.step()
        while not b.done():
            b.step()
        return [soloA, a.finish(), soloB, b.finish()]
    except Exception:
        import traceback
        return [{"id": cfgA["id"], "machinery": traceback.format_exc()}]


def with_queries(cfg, sched):
    """a 'query' schedule (A = operation, Q = get_last_point) -> cfg with queries after given rounds"""
    q = {}
    ops = 0
    for x in sched:
        if x == "A":
            ops += 1
        else:
            rnd = ops // 2 - 1
            if rnd >= 0:
                q[rnd] = q.get(rnd, 0) + 1
    c = dict(cfg)
    c["queries"] = q
    return c


def pair(pid, a, b, mode="exact", dropq=0, tol=0, info=None):
    for t in (a, b):
        if "machinery" in t:
            raise C.Machinery("driver failed: " + t["machinery"])
    return {"id": pid, "a": a["ev"], "b": b["ev"], "mode": mode, "dropq": dropq, "tol": tol, "ev": a["ev"], "cfg": dict(a.get("cfg", {}), **(info or {}))}


def run_subprocess(cfgs, hashseed, wd, name):
    """run sessions in a fresh interpreter with the given PYTHONHASHSEED"""
    pin = os.path.join(wd, name + "_in.json")
    pout = os.path.join(wd, name + "_out.json")
    with open(pin, "w") as f:
        json.dump(cfgs, f)
    env = dict(os.environ, PYTHONHASHSEED=str(hashseed), PYTHONPATH="/verif:" + C.REPO)
    p = subprocess.run([sys.executable, "-m", "harness.runone", pin, pout], cwd=C.VERIF, env=env, stdout=subprocess.PIPE, stderr=subprocess.STDOUT, text=True, timeout=1800)
    if p.returncode != 0:
        raise C.Machinery("runone failed: " + p.stdout[-2000:])
    with open(pout) as f:
        return json.load(f)


SAFE_PATTERNS = ["neg", "const", "tied", "noisy", "gridpm", "zero"]   # rewards that do not depend on the point


def base_cfgs(tier, base_id, algos, reps, rng_free=False, seedoff=0, n_choices=(100, 128), vary=False):
    rnd = random.Random(C.seed() + 131 + seedoff)
    out = []
    i = base_id
    for algo in algos:
        for rep in range(reps):
            if rng_free:
                kind, Kk = rnd.choice([("bin", 2), ("kary", 3), ("kary", 4), ("dbin", 2)])
                D = 1
            else:
                kind, Kk = rnd.choice(A.PART_KINDS)
                D = rnd.choice([1, 2]) if kind != "dbin" else rnd.choice([1, 2])
            if algo == "VROOM":
                kind, Kk = rnd.choice([("bin", 2), ("rbin", 2)]) if not rng_free else ("bin", 2)
            box = rnd.choice([b for b in PC.BOXES if len(b) == D])
            n = rnd.choice(n_choices)
            if algo == "StroquOOL":
                n = max(n, 100)   # documented budgets are >= 100 (h_max = 0 below ~62)
            prm = {}
            if vary and algo in ("T_HOO", "HCT", "VHCT", "Zooming"):
                prm = {"nu": rnd.choice([1, 0.5, 2.0]), "rho": rnd.choice([0.5, 0.7, 0.9])}
                if algo in ("HCT", "VHCT"):
                    prm.update({"c": rnd.choice([0.1, 0.3]), "delta": rnd.choice([0.01, 0.1])})
                if algo == "Zooming" and rep % 2 == 1:
                    # slowly shrinking or large diameters: arms that are several refinements behind (work that is due
                    # but done one step per call is where an extra call changes the run)
                    prm = {"nu": rnd.choice([3.0, 5.0]), "rho": rnd.choice([0.9, 0.95])} if rep % 4 == 1 else {"nu": rnd.choice([1, 2.5]), "rho": rnd.choice([0.99, 0.995])}
            if algo in ("POO", "GPO", "PCT", "VPCT"):
                prm = {"rhomax": rnd.choice([0.9, 0.87, 0.93]) if vary else 0.9, "base": rnd.choice(["T_HOO", "HCT", "VHCT"])}
            if algo == "VROOM":
                prm = {"h_max": 8}
            i += 10
            out.append({"id": i, "algo": algo, "kind": kind, "K": Kk, "D": D, "box": box, "n": n, "T": n, "prm": prm, "pattern": rnd.choice(SAFE_PATTERNS), "seed": rnd.randrange(1 << 30)})
    return out
