# -*- coding: utf-8 -*-
"""Sources shared by C08 / C07 / C04: exhaustive SOOFamily models, replay of their behaviours,
grid-mode sessions of SOO / StoSOO / DOO validated by Trace_SOO."""
import json
import os
import random

from .. import common as C
from .. import framework as F
from .. import session as S
from .. import soosession as SS
from .. import algos as A
from . import partcommon as PC

SX = 8192
INVS = {
    "C08": ["InvEvalCap", "InvExpandedWereEvaluated", "InvDepthCap", "InvSweepBounded", "InvDooOne", "InvNoStuck", "InvStruct"],
    "C07": ["InvRec"],
    "C04": ["InvHistory", "InvEvalCap"],
}


def model_P(algo, R, rewards, K_=2, hmax=100, k=0, emit=0, r0=-2000000000):
    P = {"kind": "kary", "K": K_, "D": 1, "metric": "rank", "algo": algo, "rewards": rewards, "R": R, "emit": emit, "S": SX, "RU": 2,
         "hmax": hmax, "k": k, "w2": 0, "dl": [SX >> h for h in range(14)] + [0] * 46, "r0": r0, "tol": 5}
    if algo == "StoSOO":
        P["w2"] = SS.stosoo_consts(20, k, 0.2)["w2"]
    return P


def run_model(chk, P, invs, label, props=("StepExpandRule",), coverage=True, count=True):
    pj = os.path.join(chk.wd, "params_%s.json" % label)
    with open(pj, "w") as f:
        json.dump(P, f)
    cfg = chk.write_cfg("soo_" + label, None, invariants=invs + (["Emit"] if P["emit"] else []), properties=list(props))
    os.environ["MC_PARAMS"] = pj
    try:
        return chk.mc("MC_SOO.tla", cfg, label, coverage=coverage, count=count)
    finally:
        os.environ.pop("MC_PARAMS", None)


def models(chk, prop, tier):
    q = tier == "quick"
    grid = [
        ("SOO", dict(R=6 if q else 8, rewards=[0, 1, 2], hmax=3)), ("SOO", dict(R=6 if q else 7, rewards=[-2, 0], K_=3, hmax=2)),
        ("StoSOO", dict(R=7 if q else 9, rewards=[0, 2], hmax=4, k=2)), ("StoSOO", dict(R=6 if q else 8, rewards=[0, 1, 2], hmax=5, k=1)),
        ("DOO", dict(R=6 if q else 8, rewards=[0, 1, 2])), ("DOO", dict(R=6 if q else 7, rewards=[-2, -1], K_=3)),
    ]
    if not q:
        grid += [("StoSOO", dict(R=8, rewards=[-1, 0], hmax=4, k=3)), ("SOO", dict(R=9, rewards=[0, 2], hmax=4))]
    for j, (algo, kw) in enumerate(grid):
        P = model_P(algo, **kw)
        label = "%s_%d" % (algo, j)
        run_model(chk, P, INVS[prop], label, props=("StepExpandRule",) if prop == "C08" else ())
        cov = chk.mc_runs[-1].get("action_coverage", {})
        if cov and cov.get("SweepExpand", 0) == 0:
            raise C.Machinery("model %s never expands" % label)
    chk.exhaustive = True


def replay_cfgs(chk, tier, base_id):
    cfgs = []
    expected = {}
    i = base_id
    for algo, kw in [("SOO", dict(rewards=[0, 1, 2], hmax=100)), ("StoSOO", dict(rewards=[0, 2], hmax=100, k=2)), ("DOO", dict(rewards=[-2, 0, 2]))]:
        R = 5 if tier == "quick" else 7
        P = model_P(algo, R=R, emit=1, **kw)
        label = "emit_%s" % algo
        r = run_model(chk, P, [], label, props=(), coverage=False, count=False)
        beh = F.parse_behaviours(r.stdout)
        if not beh:
            raise C.Machinery("no behaviour emitted for " + label)
        byrew = {}
        for h in beh:
            key = tuple(x[2] for x in h if x[0] == "r")
            byrew.setdefault(key, set()).add(tuple((x[0], x[1]) for x in h))
        chk.notes.setdefault("behaviours_enumerated", {})[label] = len(beh)
        if len(chk.samples) < 3:
            chk.sample({"tlc_behaviour(x = expand cell / r = evaluate cell, reward units)": beh[0], "model": label})
        for key, bset in sorted(byrew.items()):
            i += 1
            prm = {}
            if algo == "StoSOO":
                prm = {"k": 2, "delta": 0.2}
            if algo == "DOO":
                prm = {"delta_kind": "pow2"}
            cfgs.append({"id": i, "algo": algo, "kind": "bin", "K": 2, "D": 1, "box": [[0.0, 1.0]], "n": 20, "T": len(key), "prm": prm, "rewards": list(key), "RU": 2, "seed": 1})
            expected[i] = bset
    return cfgs, expected


def observed(tr):
    out = []
    cell = None
    for e in tr["ev"]:
        if e["k"] == "mk":
            out.append(("x", e["p"]))
        elif e["k"] == "pull":
            cell = e["cands"][0] if e.get("cands") else 0
        elif e["k"] == "recv":
            out.append(("r", cell))
    return tuple(out)


def random_cfgs(tier, base_id, algos=("SOO", "StoSOO", "DOO"), neg=False, allq=False):
    rnd = random.Random(C.seed() + 71 + (5 if neg else 0))
    cfgs = []
    i = base_id
    reps = 10 if tier == "quick" else 70
    for algo in algos:
        for rep in range(reps):
            kind, Kk = rnd.choice(A.PART_KINDS)
            D = rnd.choice([1, 1, 2]) if kind != "dbin" else rnd.choice([1, 2])
            box = rnd.choice([b for b in PC.BOXES if len(b) == D])
            n = rnd.choice([50, 100, 150]) if tier == "quick" else rnd.choice([50, 100, 200, 400])
            prm = {}
            ar = A.arity(kind, Kk, D)
            tight = 0
            while (ar ** (tight + 1) - 1) // (ar - 1) < n:   # smallest depth cap whose cells hold the budget
                tight += 1
            if algo == "SOO":
                prm["h_max"] = rnd.choice([100, n, tight, tight])
            if algo == "StoSOO":
                prm["k"] = rnd.choice([None, 1, 2, 3, 5])
                prm["delta"] = rnd.choice([None, 0.1, 0.3])
                prm["h_max"] = rnd.choice([100, n, tight + 1])
            if algo == "DOO" and rnd.random() < 0.5:
                prm["delta_kind"] = rnd.choice(["pow2", "lin"])
            i += 1
            pat = rnd.choice(["g01", "peak", "flat", "tied", "gneg", "const", "ints"])
            if algo == "StoSOO" and rep % 5 == 2:
                prm["k"] = rnd.choice([70, 100, 130])       # cells evaluated more than 64 / 100 times (bounded histories, small-int caches)
                n = max(n, 400)
            if algo == "StoSOO" and rep % 5 == 4:
                prm["h_max"] = rnd.choice([1, 2, 3])     # a cap the run reaches (the run then ends with the C01 input class "cap too small")
                prm["k"] = rnd.choice([1, 2, 3])
            shift = rnd.choice([0, 0, -1, -2]) if not neg else rnd.choice([-1, -2, -3])
            cfgs.append({"id": i, "algo": algo, "kind": kind, "K": Kk, "D": D, "box": box, "n": n, "T": n if rnd.random() < 0.8 else rnd.randint(3, n), "prm": prm, "pattern": pat, "shift": shift,
                         "seed": rnd.randrange(1 << 30), "queries": sorted(rnd.sample(range(3, n), 3)) if rep % 3 == 0 else (list(range(n)) if allq and rep % 3 == 1 else []),
                         "midq": (sorted(rnd.sample(range(2, n), 4)) if rep % 4 == 1 else (list(range(n)) if rep % 8 == 3 else [])) if algo != "SequOOL" else [], "rtype": [None, "f32", "f64", "i64", "int", None][rep % 6] if pat != "ints" else ["int", "i64", "int", None][rep % 4]})
    return cfgs


def nontrivial(tr):
    return F.count_mk(tr) >= 3


def full_check(prop, tier, own, rule, explanation, extra=None, neg=False):
    chk = F.Check(prop, tier)
    models(chk, prop, tier)
    cfgs, expected = replay_cfgs(chk, tier, 1400000)
    trs = [t for t in S.pmap(SS.run_soo, cfgs) if "skipped" not in t]
    v = chk.validate("Trace_SOO.tla", "Trace_SOO.cfg", trs, "replay", own=own, nontrivial=lambda t: F.count_mk(t) >= 1)
    agree = sum(1 for t in trs if observed(t) in expected[t["id"]])
    chk.notes["replay"] = {"reward_sequences": len(trs), "implementation_run_is_literally_one_of_the_enumerated_behaviours": agree}
    for t in trs:      # spec -> code: on these exact (integer-reward) inputs the implementation must follow an enumerated behaviour
        if observed(t) not in expected[t["id"]] and not any(sig.get("id") == t["id"] for sig, _ in chk.violations):
            path = os.path.join(C.OUT, "replay", "%s_replaydiff_%s.json" % (prop, t["id"]))
            os.makedirs(os.path.dirname(path), exist_ok=True)
            json.dump({"module": "Trace_SOO.tla", "cfg": "Trace_SOO.cfg", "verdict": ["replay.not-an-enumerated-behaviour", 0], "trace": t, "observed": observed(t)}, open(path, "w"))
            chk.violations.append(({"id": t["id"], "source": "replay", "clause": "replay.not-an-enumerated-behaviour", "algo": t["cfg"]["algo"], "rewards": t["cfg"].get("pattern")}, path))
    trs = [t for t in S.pmap(SS.run_soo, random_cfgs(tier, 1500000, neg=neg)) if "skipped" not in t]
    chk.validate("Trace_SOO.tla", "Trace_SOO.cfg", trs, "grid", own=own, nontrivial=nontrivial)
    chk.sample({"cfg": trs[0]["cfg"], "events": trs[0]["ev"][1:5]})
    if extra:
        extra(chk)
    chk.assumptions = ["grid rewards (multiples of 1/RU), possibly shifted to negative values; StoSOO b-values compared at Tol = 5 units of 2^-13, decisions exactly on the observed codes", "SOO/StoSOO depth caps large enough for the budget (the property's side condition)"]
    return chk.finish(rule=rule, explanation=explanation)
