# -*- coding: utf-8 -*-
"""C05 - T-HOO, HCT and VHCT pull the cell chosen by the published optimistic index."""
from . import tbcommon as TC


def run(tier):
    return TC.full_check(
        "C05", tier, own=["pull.", "index."],
        rule="MC: TreeBandit model, all reward sequences over {0,1} up to R rounds and all tie-breaks, parameter sets whose thresholds grow across epochs within R (coverage asserts the 'stop at an internal cell' branch is taken); replay: one implementation run per reward sequence of the enumerated behaviours; TV: grid-mode sessions over parameter draws x partitions x dimensions.  Non-trivial = accepted trace with >= 1 expansion and >= 2 distinct pulled cells.",
        explanation="Every pull must return the representative of a cell in PullEnds (greedy on observed B among siblings, stop at leaf / first cell below its threshold); after every round U of the touched cells equals the published index within Tol, untouched cells keep their U, and the B-law holds on every cell including the root.",
    )
