# -*- coding: utf-8 -*-
"""Grid-mode sessions of VROOM: ranks, probability vector, credited path and cells containing the point."""
import copy
import math
import random
import traceback
import warnings
from decimal import Decimal
from fractions import Fraction

import numpy as np

from . import algos as A
from . import recorder as R
from . import consts as K
from .tbsession import grid_reward

S = 4096


def vroom_consts(n, b, f_max):
    sd = int(math.floor(math.log2(n)))
    if 2 ** sd > n or 2 ** (sd + 1) <= n:
        return None
    delta = 4 * K.D(b) / (K.D(f_max) * K.D(n).sqrt())
    w2 = (4 * K.D(n) ** 3 / delta).ln() / 2 * S * S
    if w2 >= Decimal(15) * 10 ** 8 or w2 <= 0:
        return None
    C = Fraction(0)
    for h in range(1, sd + 1):
        for l in range(1, 2 ** h + 1):
            C += Fraction(1, h * l)
    invC = int(round(Fraction(1 << 20) / C))
    return {"sd": sd, "w2": int(w2.to_integral_value()), "invC": invC}


class ScriptedRNG:
    """np.random.choice / randint / uniform replaced so that VROOM's sampling follows a TLC behaviour"""

    def __init__(self, script):
        self.samples = [x[0] for x in script]
        self.signs = [s for x in script for s in x[1]]
        self.under = 0

    def choice(self, a, p=None, *args, **kw):
        if not self.samples:
            self.under += 1
            return a[0]
        return a[self.samples.pop(0)]

    def randint(self, low, high=None, *args, **kw):
        if high is None and low == 2:
            if not self.signs:
                self.under += 1
                return 0
            return self.signs.pop(0)
        return 0 if high is None else low

    def uniform(self, low=0.0, high=1.0, *args, **kw):
        return (low + high) / 2.0

    def __enter__(self):
        self.o = (np.random.choice, np.random.randint, np.random.uniform)
        np.random.choice, np.random.randint, np.random.uniform = self.choice, self.randint, self.uniform
        return self

    def __exit__(self, *a):
        np.random.choice, np.random.randint, np.random.uniform = self.o


def run_vroom(cfg):
    try:
        return _run(cfg)
    except Exception:
        return {"id": cfg["id"], "machinery": traceback.format_exc()}


def _run(cfg):
    warnings.simplefilter("ignore")
    np.seterr(all="ignore")
    np.random.seed(cfg["seed"] % (2 ** 32))
    RU = cfg.get("RU", 16)
    D = cfg["D"]
    box = [list(map(float, b)) for b in cfg["box"]]
    dom = [list(b) for b in box]
    before = copy.deepcopy(dom)
    part = A.partition_class(cfg["kind"], cfg["K"])
    n, T = cfg["n"], cfg.get("T", cfg["n"])
    prm = dict(cfg.get("prm", {}))
    c = vroom_consts(n, prm.get("b", 1), prm.get("f_max", 1))
    if c is None:
        return {"id": cfg["id"], "skipped": "constants"}
    hm = prm.get("h_max", 100)
    P = {"kind": cfg["kind"], "K": cfg["K"], "D": D, "metric": "rank", "arity": 2, "algo": "VROOM", "S": S, "RU": RU, "band": cfg.get("band", 6), "hcap": min(hm, n)}
    P.update(c)
    rng = ScriptedRNG(cfg["script"]) if cfg.get("script") else None
    if rng:
        rng.__enter__()
    try:
        return _drive(cfg, part, dom, n, T, prm, P, RU, D, box, before, rng)
    finally:
        if rng:
            rng.__exit__()


def _drive(cfg, part, dom, n, T, prm, P, RU, D, box, before, rng):
    algo = A.build("VROOM", part, dom, n, prm)

    def ext(nd):
        tot = 0
        for r in nd.reward:
            v = r * RU
            if v != int(v):
                return (R.NANC,) * 3
            tot += int(v)
        rk = nd.rank[-1] if nd.rank else 0
        return (len(nd.reward), tot, R.capint(rk))

    rec = R.SessionRec(algo, P, extractor=ext, tid=cfg["id"], call_timeout=cfg.get("timeout", 60))
    rnd = random.Random(cfg["seed"] + 3)
    t0 = cfg.get("t0", 1)
    midq = set(cfg.get("midq", ()))
    if cfg.get("preq"):        # a recommendation asked for before the first round (VROOM grows its tree to the depth cap in that call)
        rec.glp()
    for i in range(T):
        if rec.failed:
            break
        pt = rec.pull(t0 + i)
        if rec.failed:
            break
        ev = rec.events[-1]
        ev["prob"] = [int(round(float(p) * (1 << 20))) for p in algo.prob]
        ev["inside"] = rec.tree.containing(pt)
        if i in midq:          # a recommendation query between pull and receive_reward must not disturb the pending credit
            rec.glp()
            if rec.failed:
                break
        if cfg.get("rewards") is not None:
            r = cfg["rewards"][i] / RU
        else:
            r = grid_reward(cfg["pattern"], rnd, RU, pt, box)
        rec.recv(t0 + i, R.cast_reward(r, cfg.get("rtype")), rcode=int(round(r * RU)))
        if rec.failed:
            break
    if not rec.failed and cfg.get("glp", True):
        rec.glp()
    rec.end(before, dom)
    tr = rec.finalize(extra_boxes=[tuple((b[0], b[1]) for b in box)])
    if rng and (rng.under or rng.samples or rng.signs):
        tr["script_mismatch"] = [rng.under, len(rng.samples), len(rng.signs)]
    tr["cfg"] = {"algo": "VROOM", "kind": cfg["kind"], "K": cfg["K"], "D": D, "n": n, "T": T, "seed": cfg["seed"], "pattern": cfg.get("pattern", "script"), "prm": {k: v for k, v in prm.items() if isinstance(v, (int, float, str))}, "box": cfg["box"]}
    return tr
