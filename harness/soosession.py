# -*- coding: utf-8 -*-
"""Grid-mode sessions of SOO / StoSOO / DOO / SequOOL with per-cell evidence (algorithm level)."""
import copy
import math
import random
import traceback
import warnings
from decimal import Decimal

import numpy as np

from . import algos as A
from . import recorder as R
from . import consts as K
from .tbsession import grid_reward

S = 8192


def code_reward(v, RU):
    if v == -math.inf:
        return R.NINF
    u = v * RU
    try:
        if u == int(u) and abs(u) < 10 ** 8:
            return int(u)
    except Exception:
        pass
    return R.NANC


def extractor(name, RU):
    if name == "SOO":
        return lambda n: (1 if n.visited else 0, code_reward(n.get_reward(), RU), 0, 0, 0)
    if name == "DOO":
        return lambda n: (1 if n.visited else 0, code_reward(n.get_reward(), RU), 0, 0, R.fx(n.b_value, S))
    if name == "StoSOO":
        def f(n):
            tot = 0
            for r in n.rewards:
                c = code_reward(r, RU)
                if c in (R.NANC, R.NINF):
                    return (R.NANC,) * 5
                tot += c
            return (R.capint(n.visited_times), tot, len(n.rewards), R.fx(n.mean_reward, S), R.fx(n.b_value, S))
        return f
    if name == "SequOOL":
        return lambda n: (len(n.rewards), code_reward(n.rewards[0], RU) if n.rewards else R.NINF, 1 if n.opened else 0, 0, 0)
    if name == "StroquOOL":
        def g(n):
            tot = 0
            for r in n.rewards:
                c = code_reward(r, RU)
                if c in (R.NANC, R.NINF):
                    return (R.NANC,) * 5
                tot += c
            return (R.capint(n.visited_times), len(n.rewards), tot, 1 if n.opened else 0, R.fx(n.mean_reward, S))
        return g
    raise KeyError(name)


def stosoo_consts(n, k, delta):
    """k default ceil(n/ln(n)^3), delta default 1/sqrt(n); w2 = S^2 ln(nk/delta)/2"""
    amb = 0
    if k is None:
        x = K.D(n) / (K.ln(n) ** 3)
        if K.near_int(x):
            amb = 1
        k = K.dceil(x)
    if delta is None:
        d = 1 / K.D(n).sqrt()
    else:
        d = K.D(delta)
    w2 = (K.D(n) * k / d).ln() / 2 * S * S
    if w2 >= Decimal(15) * 10 ** 8:
        return None
    return {"k": int(k), "w2": int(w2.to_integral_value()), "amb": amb}


def run_soo(cfg):
    try:
        return _run(cfg)
    except Exception:
        return {"id": cfg["id"], "machinery": traceback.format_exc()}


def _run(cfg):
    warnings.simplefilter("ignore")
    np.seterr(all="ignore")
    np.random.seed(cfg["seed"] % (2 ** 32))
    name = cfg["algo"]
    RU = cfg.get("RU", 64)
    D = cfg["D"]
    box = [list(map(float, b)) for b in cfg["box"]]
    dom = [list(b) for b in box]
    before = copy.deepcopy(dom)
    part = A.partition_class(cfg["kind"], cfg["K"])
    n, T = cfg["n"], cfg.get("T", cfg["n"])
    prm = dict(cfg.get("prm", {}))
    P = {"kind": cfg["kind"], "K": cfg["K"], "D": D, "metric": "rank", "arity": A.arity(cfg["kind"], cfg["K"], D), "algo": name, "tol": 5, "S": S, "RU": RU,
         "hmax": prm.get("h_max", 100), "k": 0, "w2": 0, "dl": [], "r0": 0, "f32": 1 if cfg.get("rtype") == "f32" else 0}
    if name == "StoSOO":
        c = stosoo_consts(n, prm.get("k"), prm.get("delta"))
        if c is None or c["amb"]:
            return {"id": cfg["id"], "skipped": "constants"}
        P.update({"k": c["k"], "w2": c["w2"]})
    if name == "DOO":
        dk = prm.pop("delta_kind", None)
        if dk == "pow2":
            prm["delta_fn"] = lambda h: 2.0 ** (-h)
            P["dl"] = [max(0, S >> h) if h <= 13 else 0 for h in range(1200)]
        elif dk == "lin":
            prm["delta_fn"] = lambda h: max(0.0, 1.0 - h / 8.0)
            P["dl"] = [int(max(0.0, 1.0 - h / 8.0) * S) for h in range(1200)]
    if name == "StroquOOL":
        hs = sum(Decimal(1) / i for i in range(1, n + 1))
        x = Decimal(n) / (2 * (hs + 1) ** 2)
        if K.near_int(x):
            return {"id": cfg["id"], "skipped": "constants"}
        P["hmax"] = K.dfloor(x)
        P["pmax"] = P["hmax"].bit_length() - 1
        P["consecutive"] = 1 if cfg.get("t0", 1) == 1 else 0
    if name == "SequOOL":
        hs = sum(Decimal(1) / i for i in range(1, n + 1))
        x = Decimal(n) / hs
        if K.near_int(x):
            return {"id": cfg["id"], "skipped": "constants"}
        P["hmax"] = K.dfloor(x)
    algo = A.build(name, part, dom, n, prm)
    if name == "DOO":
        P["r0"] = R.NINF          # an unevaluated DOO cell has no reward: -inf (the specification's value, not read from the library)
    rec = R.SessionRec(algo, P, extractor=extractor(name, RU), tid=cfg["id"], call_timeout=cfg.get("timeout", 30), mk_fields=True)
    rnd = random.Random(cfg["seed"] + 3)
    t0 = cfg.get("t0", 1)
    queries = set(cfg.get("queries", ()))
    script = cfg.get("rewards")
    midq = set(cfg.get("midq", ()))
    for i in range(T):
        pt = rec.pull(t0 + i)
        if rec.failed or not R.is_point(pt, D):      # not a point (e.g. None once a depth cap is exhausted): the trace ends here, with that event
            break
        if i in midq:          # a recommendation query between pull and receive_reward: the reward still belongs to the cell just pulled (C04)
            rec.glp()
            if rec.failed:
                break
        if script is not None:
            ru = script[i]
            r = ru / RU
        else:
            r = grid_reward(cfg["pattern"], rnd, RU, pt, box)
            if cfg.get("shift"):
                r = r + cfg["shift"]
            ru = int(round(r * RU))
        rec.recv(t0 + i, R.cast_reward(r, cfg.get("rtype")), rcode=ru)
        if rec.failed:
            break
        if i in queries:
            rec.glp()
            if rec.failed:
                break
    if not rec.failed:
        rec.glp()
    rec.end(before, dom)
    tr = rec.finalize(extra_boxes=[tuple((b[0], b[1]) for b in box)])
    tr["cfg"] = {"algo": name, "kind": cfg["kind"], "K": cfg["K"], "D": D, "n": n, "T": T, "seed": cfg["seed"], "pattern": cfg.get("pattern", "script"), "shift": cfg.get("shift", 0),
                 "prm": {k: v for k, v in cfg.get("prm", {}).items() if isinstance(v, (int, float, str))}, "box": cfg["box"]}
    return tr
