# -*- coding: utf-8 -*-
"""Generic session driver: builds an algorithm from a config dict, drives the documented
ask/tell loop through the recorder and returns the encoded trace."""
import copy
import math
import multiprocessing as mp
import os
import random
import sys
import traceback
import warnings

import numpy as np

from . import algos as A
from . import recorder as R


def run_session(cfg):
    """cfg keys: id algo kind K D box n T prm pattern seed [t0] [queries] [extract] [base]"""
    try:
        return _run(cfg)
    except Exception:
        return {"id": cfg["id"], "machinery": traceback.format_exc()}


def _run(cfg):
    warnings.simplefilter("ignore")
    np.seterr(all="ignore")
    np.random.seed(cfg["seed"] % (2 ** 32))
    random.seed(cfg["seed"])
    D = cfg["D"]
    box = [list(map(float, b)) for b in cfg["box"]]
    dom = [list(b) for b in box]
    before = copy.deepcopy(dom)
    part = A.partition_class(cfg["kind"], cfg["K"])
    P = {"kind": cfg["kind"], "K": cfg["K"], "D": D, "metric": "rank", "arity": A.arity(cfg["kind"], cfg["K"], D), "algo": cfg["algo"]}
    n = cfg["n"]
    T = cfg.get("T", n)
    t0 = cfg.get("t0", 1)
    queries = set(cfg.get("queries", ()))
    RU = cfg.get("RU", 64)
    src = A.reward_source(cfg["pattern"], cfg["seed"] + 7, RU)
    prnd = random.Random(cfg["seed"] + 11)
    events0 = []
    try:
        algo = A.build(cfg["algo"], part, dom, n, cfg.get("prm", {}))
    except Exception as e:
        tr = {"id": cfg["id"], "P": P, "ev": [{"k": "ctor", "exc": type(e).__name__}], "xbox": [[[1, 2]] * D]}
        tr["cfg"] = _cfg_summary(cfg)
        return tr
    rec = R.SessionRec(algo, P, tid=cfg["id"], call_timeout=cfg.get("timeout", 30))
    for i in range(T):
        pt = rec.pull(t0 + i)
        if rec.failed:
            break
        if cfg["pattern"] == "peak" and R.is_point(pt, D):
            rel = [int((pt[x] - box[x][0]) / (box[x][1] - box[x][0]) * (1 << 30)) for x in range(D)]
            r = A.peak_reward(rel, prnd, RU)
        else:
            r = src(i, pt)
        rec.recv(t0 + i, r)
        if rec.failed:
            break
        if i in queries:
            rec.glp()
            if rec.failed:
                break
    if not rec.failed:
        rec.glp()
    rec.end(before, dom)
    tr = rec.finalize(extra_boxes=[tuple((b[0], b[1]) for b in box)])
    tr["cfg"] = _cfg_summary(cfg)
    return tr


def _cfg_summary(cfg):
    return {k: cfg[k] for k in ("algo", "kind", "K", "D", "n", "pattern", "seed") if k in cfg} | {"T": cfg.get("T", cfg["n"]), "prm": {k: v for k, v in cfg.get("prm", {}).items() if isinstance(v, (int, float, str))}, "box": cfg["box"]}


def pmap(fn, items, procs=None):
    procs = procs or min(os.cpu_count() or 4, 16)
    if len(items) < 4 or procs == 1:
        return [fn(x) for x in items]
    ctx = mp.get_context("fork")
    with ctx.Pool(procs) as pool:
        return pool.map(fn, items, chunksize=max(1, len(items) // (procs * 8)))
