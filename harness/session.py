# -*- coding: utf-8 -*-
"""Generic session driver: builds an algorithm from a config dict, drives the documented
ask/tell loop through the recorder and returns the encoded trace."""
import copy
import math
import multiprocessing as mp
import os
import random
import sys
import traceback
import warnings

import numpy as np

from . import algos as A
from . import recorder as R


def run_session(cfg):
    """cfg keys: id algo kind K D box n T prm pattern seed [t0] [queries] [extract] [base]"""
    try:
        return _run(cfg)
    except Exception:
        return {"id": cfg["id"], "machinery": traceback.format_exc()}


class Stepper:
    """one session that can be advanced operation by operation (pull / receive_reward[, query])"""

    def __init__(self, cfg, seed_rng=True):
        warnings.simplefilter("ignore")
        np.seterr(all="ignore")
        if seed_rng:
            np.random.seed(cfg["seed"] % (2 ** 32))
            random.seed(cfg["seed"])
        self.cfg = cfg
        D = self.D = cfg["D"]
        self.box = [list(map(float, b)) for b in cfg["box"]]
        self.dom = [list(b) for b in self.box]
        if cfg.get("alias_dom") and all(b == self.box[0] for b in self.box):
            self.dom = [self.dom[0]] * D          # the idiomatic [[lo, hi]] * d: one inner list object, d times
        if cfg.get("domtype") == "ndarray":
            self.dom = np.array(self.box, dtype=float)   # a (d, 2) array is accepted wherever a list of [lo, hi] pairs is
        self.before = copy.deepcopy(self.dom)
        part = A.partition_class(cfg["kind"], cfg["K"])
        self.P = {"kind": cfg["kind"], "K": cfg["K"], "D": D, "metric": "rank", "arity": A.arity(cfg["kind"], cfg["K"], D), "algo": cfg["algo"]}
        if cfg.get("sessiononly"):
            self.P["sessiononly"] = 1
        self.n = cfg["n"]
        self.T = cfg.get("T", self.n)
        self.t0 = cfg.get("t0", 1)
        self.queries = cfg.get("queries", {})
        if not isinstance(self.queries, dict):
            self.queries = {int(q): 1 for q in self.queries}
        self.queries = {int(k): v for k, v in self.queries.items()}
        self.RU = cfg.get("RU", 64)
        self.src = A.reward_source(cfg["pattern"], cfg["seed"] + 7, self.RU)
        self.prnd = random.Random(cfg["seed"] + 11)
        self.i = 0
        self.asked = None
        self.rec = None
        self.ctor_exc = None
        prm = dict(cfg.get("prm", {}))
        dk = prm.pop("delta_kind", None)
        if dk == "pow2":
            prm["delta_fn"] = lambda h: 2.0 ** (-h)
        elif dk == "const":
            prm["delta_fn"] = lambda h: 0.5
        try:
            algo = A.build(cfg["algo"], part, self.dom, self.n, prm)
        except Exception as e:
            self.ctor_exc = type(e).__name__
            return
        self.rec = R.SessionRec(algo, self.P, tid=cfg["id"], call_timeout=cfg.get("timeout", 30), tree=not cfg.get("notree"))

    def done(self):
        return self.rec is None or self.rec.failed or (self.i >= self.T and self.asked is None)

    def step(self):
        """next operation of the documented loop"""
        rec = self.rec
        if self.asked is None:
            if self.i == 0 and self.cfg.get("preq") and not getattr(self, "_preq_done", False):
                self._preq_done = True       # a recommendation asked for before the first round
                rec.glp()
                return
            self.asked = (rec.pull(self.t0 + self.i),)
            return
        pt = self.asked[0]
        self.asked = None
        if self.cfg["pattern"] == "peak" and R.is_point(pt, self.D):
            rel = [int((pt[x] - self.box[x][0]) / (self.box[x][1] - self.box[x][0]) * (1 << 30)) for x in range(self.D)]
            r = A.peak_reward(rel, self.prnd, self.RU)
        else:
            r = self.src(self.i, pt)
        rec.recv(self.t0 + self.i, r)
        if not rec.failed:
            for _ in range(self.queries.get(self.i, 0)):
                rec.glp()
                if rec.failed:
                    break
        self.i += 1

    def finish(self):
        if self.rec is None:
            tr = {"id": self.cfg["id"], "P": self.P, "ev": [{"k": "ctor", "exc": self.ctor_exc}], "xbox": [[[1, 2]] * self.D]}
            tr["cfg"] = _cfg_summary(self.cfg)
            return tr
        rec = self.rec
        if not rec.failed:
            rec.glp()
            rec.events[-1]["final"] = 1
        rec.end(self.before, self.dom)
        tr = rec.finalize(extra_boxes=[tuple((b[0], b[1]) for b in self.box)])
        tr["cfg"] = _cfg_summary(self.cfg)
        return tr


def _run(cfg):
    st = Stepper(cfg)
    while not st.done():
        st.step()
    return st.finish()


def _cfg_summary(cfg):
    return {k: cfg[k] for k in ("algo", "kind", "K", "D", "n", "pattern", "seed", "domtype") if k in cfg} | {"T": cfg.get("T", cfg["n"]), "prm": {k: v for k, v in cfg.get("prm", {}).items() if isinstance(v, (int, float, str))}, "box": cfg["box"]}


def pmap(fn, items, procs=None):
    """parallel map over worker processes; a worker that dies (e.g. killed for memory) is a machinery failure,
    never a silent hang"""
    import concurrent.futures as cf
    from .common import Machinery
    procs = procs or min(os.cpu_count() or 4, 16)
    if len(items) < 4 or procs == 1:
        return [fn(x) for x in items]
    ctx = mp.get_context("fork")
    try:
        with cf.ProcessPoolExecutor(max_workers=procs, mp_context=ctx) as ex:
            return list(ex.map(fn, items, chunksize=max(1, len(items) // (procs * 8))))
    except cf.process.BrokenProcessPool as e:
        raise Machinery("a worker process died while running %s: %s" % (getattr(fn, "__name__", fn), e))
