# -*- coding: utf-8 -*-
"""pytest plugin (loaded with -p, lives in /verif, changes no file of the repository): records every
top-level algorithm instance constructed by the repository's own tests through the session recorder,
so that the existing tests become a trace source for Trace_Session (C01 / C02 / C03).
Active only when PYXAB_VERIF_TRACE=1; traces go to $PYXAB_VERIF_TRACE_OUT."""
import json
import os
import sys

ACTIVE = os.environ.get("PYXAB_VERIF_TRACE") == "1"
_sessions = []
_depth = [0]
MAX_CALLS = int(os.environ.get("PYXAB_VERIF_TRACE_MAXCALLS", "400"))
MAX_CELLS = 1200


def _kind_of(part):
    n = type(part).__name__
    if n.startswith("BinaryPartition"):
        return "bin", 2
    if n.startswith("RandomBinaryPartition"):
        return "rbin", 2
    if n.startswith("DimensionBinaryPartition"):
        return "dbin", 2
    if n.startswith("RandomKaryPartition"):
        return "rkary", getattr(part, "K", 3)
    if n.startswith("KaryPartition"):
        return "kary", getattr(part, "K", 3)
    return None, None


def _patch(cls, R, A):
    o_init, o_pull, o_recv, o_glp = cls.__init__, cls.pull, cls.receive_reward, cls.get_last_point

    def __init__(self, *a, **k):
        _depth[0] += 1
        try:
            o_init(self, *a, **k)
        finally:
            _depth[0] -= 1
        if _depth[0] > 0:
            return
        try:
            dom = k.get("domain")
            part = getattr(self, "partition", None)
            from PyXAB.partition.Partition import Partition
            if isinstance(part, Partition):
                kind, K = _kind_of(part)
                dom = part.domain
            else:
                part = part if part is not None else k.get("partition")
                if part is None and dom is not None:
                    from PyXAB.partition.BinaryPartition import BinaryPartition as part   # the wrappers' default
                kind, K = _kind_of(part(domain=dom)) if part is not None and dom is not None else (None, None)
            if kind is None or dom is None:
                return
            D = len(dom)
            P = {"kind": kind, "K": K, "D": D, "metric": "rank", "arity": A.arity(kind, K, D), "algo": cls.__name__}
            rec = R.SessionRec(self, P, tid=len(_sessions) + 1, call_timeout=120)
            rec._box = [tuple(map(float, b)) for b in dom]
            rec._ph = "told"
            rec._busy = False
            rec._calls = 0
            rec._off = False
            rec._test = os.environ.get("PYTEST_CURRENT_TEST", "")
            self._vrec = rec
            _sessions.append(rec)
        except Exception:
            pass

    def _via(self, kind, orig, args):
        rec = getattr(self, "_vrec", None)
        if rec is None or rec._busy or rec._off or _depth[0] > 0:
            _depth[0] += 1          # whatever is constructed inside an unrecorded call is not a top-level instance
            try:
                return orig(self, *args)
            finally:
                _depth[0] -= 1
        want = {"pull": "told", "recv": "asked", "glp": "told"}[kind]
        big = rec.tree is not None and len(rec.tree.nodes) > MAX_CELLS
        if rec._ph != want or rec._calls >= MAX_CALLS or big or rec.failed:
            rec._off = True          # off the documented protocol / budget of the recorder: stop recording this instance
            _depth[0] += 1
            try:
                return orig(self, *args)
            finally:
                _depth[0] -= 1
        rec._busy = True
        _depth[0] += 1
        try:
            if kind == "pull":
                out = rec.pull(args[0])
                rec._ph = "asked"
            elif kind == "recv":
                out = rec.recv(args[0], args[1])
                rec._ph = "told"
            else:
                out = rec.glp()
        finally:
            rec._busy = False
            _depth[0] -= 1
        rec._calls += 1
        if rec.last_exc is not None:
            e, rec.last_exc = rec.last_exc, None
            raise e
        return out

    cls.__init__ = __init__
    cls.pull = lambda self, time: _via(self, "pull", o_pull, (time,))
    cls.receive_reward = lambda self, time, reward: _via(self, "recv", o_recv, (time, reward))
    cls.get_last_point = lambda self: _via(self, "glp", o_glp, ())


def pytest_configure(config):
    if not ACTIVE:
        return
    sys.path.insert(0, "/verif")
    from harness import recorder as R, algos as A
    for name in A.ALGO_NAMES:
        cls = {"T_HOO": A.T_HOO, "HCT": A.HCT, "VHCT": A.VHCT, "POO": A.POO, "GPO": A.GPO, "PCT": A.PCT, "VPCT": A.VPCT, "DOO": A.DOO, "SOO": A.SOO,
               "StoSOO": A.StoSOO, "SequOOL": A.SequOOL, "StroquOOL": A.StroquOOL, "VROOM": A.VROOM, "Zooming": A.Zooming}[name]
        _patch(cls, R, A)


def pytest_sessionfinish(session, exitstatus):
    if not ACTIVE:
        return
    out = []
    for rec in _sessions:
        try:
            tr = rec.finalize(extra_boxes=[rec._box])
            tr["cfg"] = {"algo": tr["P"]["algo"], "kind": tr["P"]["kind"], "K": tr["P"]["K"], "D": tr["P"]["D"], "source": "repository test", "test": rec._test.split(" ")[0], "recorded_calls": rec._calls}
            out.append(tr)
        except Exception as e:
            out.append({"id": rec.tid, "machinery": repr(e)})
    path = os.environ.get("PYXAB_VERIF_TRACE_OUT", "/verif/out/repo_tests_traces.json")
    with open(path, "w") as f:
        json.dump(out, f)
