# -*- coding: utf-8 -*-
"""Recorder: observes a PyXAB algorithm / partition from outside and produces traces.

No source hook is used.  `Partition.make_children` is wrapped *per instance*, every public
call is made through the recorder, and after each of them the whole object graph
(node_list U reachable-from-root) is walked through the public getters and diffed against
the previous observation, so that *every* change is logged, not only the expected one.

Cells get ids in creation order (children in child-list order), the way the TLA+
specification allocates them, so ids line up between trace and spec.

All numbers in a finished trace are integers:
  * coordinates   -> dense ranks per dimension (E1, strictly monotone => order/equality exact)
  * rewards       -> multiples of 1/RU ("grid mode", E2)          (algorithm level only)
  * U/B/means ... -> round(S*x) with +-inf sentinels (E4)
"""
import math
from fractions import Fraction
import signal
import copy

PINF = 2000000000
NINF = -2000000000
NANC = 1999999999
BIG = 1900000000
REL = 1 << 20


class Hang(Exception):
    pass


def _alarm(signum, frame):
    raise Hang()


def fx(x, S):
    """fixed point code of a float (monotone)"""
    try:
        x = float(x)
    except Exception:
        return NANC
    if math.isnan(x):
        return NANC
    if x == math.inf:
        return PINF
    if x == -math.inf:
        return NINF
    v = x * S
    if v >= BIG:
        return BIG
    if v <= -BIG:
        return -BIG
    return int(round(v))


def _hw2(box, cpt):
    """squared half-width of the first coordinate as the library computes it (DOO's default delta), scale 2^13"""
    try:
        return fx(max((box[0][0] - cpt[0]) ** 2, (box[0][1] - cpt[0]) ** 2), 8192)
    except OverflowError:
        return BIG


def _same_domain(a, b):
    """deep equality of the user's domain object before / after (lists, tuples or arrays), type included"""
    import numpy as np
    if type(a) is not type(b):
        return False
    if isinstance(a, np.ndarray):
        return a.shape == b.shape and a.dtype == b.dtype and bool(np.array_equal(a, b))
    return a == b


def capint(x):
    """integer-valued float (np.ceil result) -> int capped at BIG"""
    try:
        x = float(x)
    except Exception:
        return NANC
    if math.isnan(x):
        return NANC
    if x >= BIG:
        return BIG
    if x <= -BIG:
        return -BIG
    return int(round(x))


def digits(index, K, depth):
    """base-K digits of index-1, most significant first, exactly `depth` digits; [-1] if impossible"""
    try:
        v = int(index) - 1
    except Exception:
        return [-1]
    if v != index - 1 or v < 0:
        return [-1]
    out = []
    for _ in range(depth):
        out.append(v % K)
        v //= K
    if v != 0:
        return [-1]
    out.reverse()
    return out


def cast_reward(r, rtype):
    """the same number as another numeric type a user may pass (numpy scalars, ints): "every finite reward" """
    import numpy as np
    if rtype == "f32":
        return np.float32(r)
    if rtype == "f64":
        return np.float64(r)
    if rtype == "i64" and float(r) == int(r):
        return np.int64(int(r))
    if rtype == "int" and float(r) == int(r):
        return int(r)
    return r


def is_point(pt, d):
    if not isinstance(pt, (list, tuple)) or len(pt) != d:
        return False
    for v in pt:
        try:
            f = float(v)
        except Exception:
            return False
        if not math.isfinite(f):
            return False
    return True


class TreeRec:
    """Observes one Partition object (structure + per-cell evidence)."""

    def __init__(self, partition, arity, events, extractor=None, tag=None, mk_fields=False):
        self.part = partition
        self.K = arity
        self.events = events
        self.extract = extractor
        self.tag = tag
        self.mk_fields = mk_fields
        self.nodes = []  # id-1 -> node object (kept alive, so id() is never reused)
        self.ids = {}  # id(node) -> cell id
        self.kids = {}  # id -> tuple of kid ids
        self.meta = {}  # id -> (parent id, dep, index, domain tuple, cpoint tuple)
        self.fields = {}  # id -> evidence tuple
        self.layers = []  # list of tuples
        self.pdepth = None
        self.mk_calls = 0
        self.mk_in_call = 0
        self.in_mk = 0
        self._orig_mk = partition.make_children
        partition.make_children = self._mk_wrapper
        self.init_event = self._initial()

    # -- identity -------------------------------------------------------------
    def ident(self, node):
        if node is None:
            return 0
        return self.ids.get(id(node), -1)

    def _register(self, node):
        self.nodes.append(node)
        cid = len(self.nodes)
        self.ids[id(node)] = cid
        return cid

    def _dom(self, node):
        try:
            return tuple((float(a[0]), float(a[1])) for a in node.get_domain())
        except Exception:
            return None

    def _cpt(self, node):
        try:
            return tuple(float(v) for v in node.get_cpoint())
        except Exception:
            return None

    # -- walking --------------------------------------------------------------
    def _walk(self, first=()):
        """all node objects in a deterministic order: `first`, then layer lists, then reachable"""
        seen = set()
        order = []

        def add(n):
            if n is not None and id(n) not in seen:
                seen.add(id(n))
                order.append(n)

        for n in first:
            add(n)
        for layer in self.part.get_node_list():
            for n in layer:
                add(n)
        stack = [self.part.get_root()]
        while stack:
            n = stack.pop()
            add(n)
            ch = n.get_children()
            if ch:
                for c in ch:
                    if id(c) not in seen:
                        stack.append(c)
        return order

    def _initial(self):
        """full initial tree in layer (= creation) order"""
        root = self.part.get_root()
        self._register(root)
        frontier = [root]
        while frontier:
            nxt = []
            for n in frontier:
                ch = n.get_children()
                if ch:
                    for c in ch:
                        if id(c) not in self.ids:
                            self._register(c)
                            nxt.append(c)
            frontier = nxt
        anom = []
        for n in self._walk():
            if id(n) not in self.ids:
                self._register(n)
                anom.append(["init-unreachable", self.ident(n)])
        new = []
        for n in list(self.nodes):
            new.append(self._describe(n))
        for n in self.nodes:
            cid = self.ident(n)
            ch = n.get_children()
            self.kids[cid] = tuple(self.ident(c) for c in ch) if ch else ()
            if self.extract:
                self.fields[cid] = self.extract(n)
        self.layers = [tuple(self.ident(n) for n in layer) for layer in self.part.get_node_list()]
        anom += self._layer_getter_anoms(full=True)
        self.pdepth = self.part.get_depth()
        ev = {
            "k": "init",
            "cells": new,
            "kids": [list(self.kids[i + 1]) for i in range(len(self.nodes))],
            "layers": [list(l) for l in self.layers],
            "pd": capint(self.pdepth),
            "anom": anom,
        }
        if self.extract:
            ev["f"] = [list(self.fields[i + 1]) for i in range(len(self.nodes))]
        return ev

    def _describe(self, n):
        cid = self.ident(n)
        par = n.get_parent()
        dep = n.get_depth()
        dom = self._dom(n)
        cpt = self._cpt(n)
        self.meta[cid] = (self.ident(par), dep, n.get_index(), dom, cpt)
        pdom = self._dom(par) if par is not None else None
        return {
            "id": cid,
            "par": self.ident(par),
            "dep": capint(dep),
            "idx": digits(n.get_index(), self.K, dep if isinstance(dep, int) and 0 <= dep < 4000 else 0),
            "box": dom,  # raw floats, rank coded at finalize
            "cpt": cpt,
            "pbox": pdom,
        }

    # -- make_children wrapper --------------------------------------------------
    MAX_MK_PER_CALL = 2500

    def _mk_wrapper(self, parent, newlayer=False):
        self.mk_in_call += 1
        if self.mk_in_call > self.MAX_MK_PER_CALL:
            raise Hang()          # runaway expansion inside one public call: reported as a hang, before it eats the memory
        self.in_mk += 1
        exc = None
        hang = False
        try:
            return self._orig_mk(parent, newlayer=newlayer)
        except Hang:
            hang = True           # the watchdog fired inside make_children: the split is incomplete, the event says so
            raise
        except Exception as e:  # pragma: no cover
            exc = e
            raise
        finally:
            self.in_mk -= 1
            self.mk_calls += 1
            ev = {"k": "mk", "p": self.ident(parent), "nl": 1 if newlayer else 0}
            if self.tag is not None:
                ev["L"] = self.tag
            if exc is not None:
                ev["exc"] = type(exc).__name__
            if hang:
                ev["hang"] = 1
            ch = parent.get_children() if exc is None and not hang else None
            self.scan(ev, first=tuple(ch) if ch else (), local_parent=parent if len(self.nodes) > self.FULL_SCAN_MAX and not self.mk_fields else None, fields=self.mk_fields)
            self.events.append(ev)

    # -- diff -------------------------------------------------------------------
    FULL_SCAN_MAX = 700

    def _walk_local(self, parent, first):
        """cheap walk used inside make_children on very large trees: the parent, its children and
        whatever was appended to the layer lists; everything else is re-examined by the full walk
        at the end of the public call"""
        seen = set()
        order = []

        def add(n):
            if n is not None and id(n) not in seen:
                seen.add(id(n))
                order.append(n)

        for n in first:
            add(n)
        add(parent)
        nl = self.part.get_node_list()
        for h, layer in enumerate(nl):
            known = len(self.layers[h]) if h < len(self.layers) else 0
            for n in layer[known:]:
                add(n)
        return order

    def scan(self, ev, first=(), local_parent=None, fields=True):
        """walk everything, add the differences with the last observation to `ev`"""
        anom = []
        new = []
        order = self._walk(first) if local_parent is None else self._walk_local(local_parent, first)
        firstids = set(id(n) for n in first)
        for n in order:
            if id(n) not in self.ids:
                self._register(n)
                if id(n) not in firstids:
                    anom.append(["foreign-cell", self.ident(n)])
                new.append(n)
        newdesc = [self._describe(n) for n in new]
        newset = set(id(n) for n in new)
        kc = []
        fc = []
        for n in order:
            cid = self.ident(n)
            ch = n.get_children()
            k = tuple(self.ident(c) for c in ch) if ch else ()
            if id(n) in newset:
                if k:
                    kc.append([cid, list(k)])
                self.kids[cid] = k
                if self.extract:
                    self.fields[cid] = self.extract(n)
                    ev.setdefault("nf", []).append([cid] + list(self.fields[cid]))
                continue
            if k != self.kids[cid]:
                kc.append([cid, list(k)])
                self.kids[cid] = k
            par = n.get_parent()
            m = (self.ident(par), n.get_depth(), n.get_index(), self._dom(n), self._cpt(n))
            if m != self.meta[cid]:
                anom.append(["cell-mutated", cid])
                self.meta[cid] = m
            if self.extract and fields:
                f = self.extract(n)
                if f != self.fields[cid]:
                    fc.append([cid] + list(f))
                    self.fields[cid] = f
        # cells that vanished from the walk (neither listed nor reachable) cannot be observed
        # any more through the public interface; their last state stays in the shadow.
        if local_parent is None:
            layers = [tuple(self.ident(n) for n in layer) for layer in self.part.get_node_list()]
        else:
            layers = []
            for h, layer in enumerate(self.part.get_node_list()):
                old = self.layers[h] if h < len(self.layers) else ()
                if len(layer) >= len(old):
                    layers.append(old + tuple(self.ident(n) for n in layer[len(old):]))
                else:
                    layers.append(tuple(self.ident(n) for n in layer))
        lc = []
        for h in range(max(len(layers), len(self.layers))):
            old = self.layers[h] if h < len(self.layers) else ()
            cur = layers[h] if h < len(layers) else None
            if cur is None:
                lc.append([h, -1, []])  # layer disappeared
            elif cur != old:
                if cur[: len(old)] == old:
                    lc.append([h, len(old), list(cur[len(old):])])
                else:
                    lc.append([h, -2, list(cur)])  # rewritten
        self.layers = layers
        anom += self._layer_getter_anoms(full=local_parent is None)
        pd = self.part.get_depth()
        ev["new"] = newdesc
        ev["kc"] = kc
        ev["lc"] = lc
        ev["pd"] = capint(pd)
        ev["fc"] = fc
        ev["anom"] = anom
        self.pdepth = pd

    def _layer_getter_anoms(self, full):
        """the per-depth list is published twice: get_node_list()[h] and get_layer_node_list(h) must hold the same cells (in any order)"""
        out = []
        getter = getattr(self.part, "get_layer_node_list", None)
        if getter is None:
            return out
        try:
            nl = self.part.get_node_list()
            for h in range(len(nl)):
                got = getter(h)
                a, b = nl[h], got
                # C03 speaks of the cells a list contains, not of their order within a depth: compare as multisets of objects
                same = a is b or (len(a) == len(b) and sorted(map(id, a)) == sorted(map(id, b)))
                if not same:
                    out.append(["layer-getter", h])
                    break
        except Exception as e:
            out.append(["layer-getter-raises", type(e).__name__])
        return out

    def cands(self, pt):
        """ids of cells whose representative point equals pt (K odd: parent and middle child coincide)"""
        try:
            key = tuple(float(v) for v in pt)
        except Exception:
            return []
        out = []
        for cid, m in self.meta.items():
            if m[4] == key:
                out.append(cid)
        return sorted(out)

    def containing(self, pt):
        """ids of cells whose box contains pt"""
        try:
            key = tuple(float(v) for v in pt)
        except Exception:
            return []
        out = []
        for cid, m in self.meta.items():
            dom = m[3]
            if dom is not None and len(dom) == len(key) and all(dom[i][0] <= key[i] <= dom[i][1] for i in range(len(key))):
                out.append(cid)
        return sorted(out)


class SessionRec:
    """Drives one algorithm instance through its public interface and records a trace."""

    def __init__(self, algo, P, extractor=None, call_timeout=20, scalars=None, tid=None, tree=True, S=8192, RU=64, mk_fields=False):
        self.algo = algo
        self.P = dict(P)
        self.S = S
        self.RU = RU
        self.events = []
        self.d = P["D"]
        self.timeout = call_timeout
        self.scalars = scalars
        self.tid = tid
        self.failed = None
        self.last_exc = None
        self.tree = None
        from PyXAB.partition.Partition import Partition

        if tree and isinstance(getattr(algo, "partition", None), Partition):
            self.tree = TreeRec(algo.partition, P["arity"], self.events, extractor, mk_fields=mk_fields)
            self.events.append(self.tree.init_event)
        else:
            self.events.append({"k": "init0"})
        if self.scalars:
            self.events[-1]["sc"] = self.scalars(algo)

    def _call(self, kind, fn, ev):
        if self.tree is not None:
            self.tree.mk_in_call = 0
        old = signal.signal(signal.SIGALRM, _alarm)
        signal.alarm(self.timeout)
        res = None
        try:
            res = fn()
        except Hang:
            ev["hang"] = 1
            self.failed = "hang"
        except Exception as e:
            ev["exc"] = type(e).__name__
            ev["msg"] = str(e)[:120]
            self.failed = type(e).__name__
            self.last_exc = e
        finally:
            signal.alarm(0)
            signal.signal(signal.SIGALRM, old)
        if self.tree is not None:
            self.tree.scan(ev)
        if self.scalars and self.failed is None:
            ev["sc"] = self.scalars(self.algo)
        return res

    def _point(self, ev, pt):
        ok = is_point(pt, self.d)
        ev["ptok"] = 1 if ok else 0
        if ok:
            ev["pt"] = [float(v) for v in pt]
            if self.tree is not None:
                ev["cands"] = self.tree.cands(pt)
        else:
            ev["ptrepr"] = repr(pt)[:80]

    def pull(self, t):
        ev = {"k": "pull", "t": int(t)}
        pt = self._call("pull", lambda: self.algo.pull(t), ev)
        if "exc" not in ev and "hang" not in ev:
            self._point(ev, pt)
        self.events.append(ev)
        return pt

    def recv(self, t, r, rcode=None):
        ev = {"k": "recv", "t": int(t), "r": rcode if rcode is not None else 0}
        self._call("recv", lambda: self.algo.receive_reward(t, r), ev)
        self.events.append(ev)

    def glp(self):
        ev = {"k": "glp"}
        pt = self._call("glp", lambda: self.algo.get_last_point(), ev)
        if "exc" not in ev and "hang" not in ev:
            self._point(ev, pt)
        self.events.append(ev)
        return pt

    def end(self, domain_before, domain_now):
        self.events.append({"k": "end", "dom_same": 1 if _same_domain(domain_before, domain_now) else 0})

    # -- encoding -----------------------------------------------------------------
    def finalize(self, extra_boxes=()):
        """rank-code all coordinates; returns the trace as a JSON-able dict of integers"""
        d = self.d
        vals = [set() for _ in range(d)]

        def feed_box(b):
            if b is None or len(b) != d:
                return
            for x in range(d):
                vals[x].add(b[x][0])
                vals[x].add(b[x][1])

        def feed_pt(p):
            if p is None or len(p) != d:
                return
            for x in range(d):
                vals[x].add(p[x])

        descs = []
        for ev in self.events:
            if ev["k"] == "init":
                descs += ev["cells"]
            for c in ev.get("new", []):
                descs.append(c)
            if "pt" in ev:
                feed_pt(ev["pt"])
            for q in ev.get("pts", ()):
                feed_pt(q)
        for c in descs:
            feed_box(c["box"])
            feed_pt(c["cpt"])
        for b in extra_boxes:
            feed_box(b)
        rank = []
        for x in range(d):
            s = sorted(v for v in vals[x] if not math.isnan(v))
            rank.append({v: i + 1 for i, v in enumerate(s)})

        def rk(x, v):
            return rank[x].get(v, 0)  # 0 = not a comparable number

        def enc_cell(c):
            box, cpt, pbox = c["box"], c["cpt"], c["pbox"]
            okb = box is not None and len(box) == d
            okc = cpt is not None and len(cpt) == d
            relc, relw = [], []   # coarse relative position / width (information, 2^-20 units)
            cdev, wdev = [], []   # exact deviations from the midpoint / equal-width law, in float ulps
            Kw = 2 if self.P["kind"] in ("bin", "dbin", "rbin") else self.P["K"]
            for x in range(d):
                if okb and okc and all(math.isfinite(v) for v in (box[x][0], box[x][1], cpt[x])):
                    lo, hi = box[x]
                    w = hi - lo
                    try:
                        relc.append(int(round((cpt[x] - lo) / w * REL)) if w > 0 and math.isfinite(w) else -2)
                    except (OverflowError, ValueError):
                        relc.append(-2)
                    u = Fraction(math.ulp(max(abs(lo), abs(hi), 5e-324)))
                    dev = abs(2 * Fraction(cpt[x]) - Fraction(lo) - Fraction(hi)) / u   # |cpt - mid| in half-ulps
                    cdev.append(min(1000, int(math.ceil(dev))))
                else:
                    relc.append(-1)
                    cdev.append(1000)
                if okb and pbox is not None and len(pbox) == d and all(math.isfinite(v) for v in (box[x][0], box[x][1], pbox[x][0], pbox[x][1])):
                    pw = Fraction(pbox[x][1]) - Fraction(pbox[x][0])
                    w = Fraction(box[x][1]) - Fraction(box[x][0])
                    relw.append(int(round(float(w / pw) * REL)) if pw > 0 else -2)
                    u = Fraction(math.ulp(max(abs(pbox[x][0]), abs(pbox[x][1]), 5e-324)))
                    wdev.append(min(1000, int(math.ceil(abs(w - pw / Kw) / u))))
                else:
                    relw.append(-2 if pbox is None else -1)
                    wdev.append(0 if pbox is None else 1000)
            return {
                "id": c["id"],
                "par": c["par"],
                "dep": c["dep"],
                "idx": c["idx"],
                "box": [[rk(x, box[x][0]), rk(x, box[x][1])] for x in range(d)] if okb else [[0, 0]] * d,
                "cpt": [rk(x, cpt[x]) for x in range(d)] if okc else [0] * d,
                "relc": relc,
                "relw": relw,
                "cdev": cdev,
                "wdev": wdev,
                "hw2": _hw2(box, cpt) if okb and okc else -1,
            }

        out = []
        for ev in self.events:
            e = dict(ev)
            if e["k"] == "init":
                e["cells"] = [enc_cell(c) for c in ev["cells"]]
            if "new" in e:
                e["new"] = [enc_cell(c) for c in ev["new"]]
            if "pt" in e:
                raw = ev["pt"]
                e["pt"] = [rk(x, raw[x]) for x in range(d)]
                rb = self.tree.meta[1][3] if self.tree is not None else (extra_boxes[0] if extra_boxes else None)
                if rb is not None and len(rb) == d:
                    rel = []
                    for x in range(d):
                        w = rb[x][1] - rb[x][0]
                        rel.append(max(-(1 << 30), min((1 << 31) - 1000, int(round((raw[x] - rb[x][0]) / w * (1 << 30))))) if w > 0 and math.isfinite(w) else -1)
                    e["rel"] = rel
            if "pts" in e:
                e["pts"] = [[rk(x, q[x]) for x in range(d)] if q is not None and len(q) == d else [0] * d for q in ev["pts"]]
            e.pop("msg", None)
            e.pop("ptrepr", None)
            out.append(e)
        tr = {"id": self.tid if self.tid is not None else 0, "P": self.P, "ev": out}
        if extra_boxes:
            tr["xbox"] = [[[rk(x, b[x][0]), rk(x, b[x][1])] for x in range(d)] for b in extra_boxes]
        return tr
