# -*- coding: utf-8 -*-
"""Registry of PyXAB algorithms / partitions and the generic session driver."""
import copy
import math
import random

import numpy as np

from PyXAB.partition.Node import P_node
from PyXAB.partition.BinaryPartition import BinaryPartition
from PyXAB.partition.RandomBinaryPartition import RandomBinaryPartition
from PyXAB.partition.DimensionBinaryPartition import DimensionBinaryPartition
from PyXAB.partition.KaryPartition import KaryPartition
from PyXAB.partition.RandomKaryPartition import RandomKaryPartition
from PyXAB.algos.HOO import T_HOO
from PyXAB.algos.HCT import HCT
from PyXAB.algos.VHCT import VHCT
from PyXAB.algos.POO import POO
from PyXAB.algos.GPO import GPO
from PyXAB.algos.PCT import PCT
from PyXAB.algos.VPCT import VPCT
from PyXAB.algos.DOO import DOO
from PyXAB.algos.SOO import SOO
from PyXAB.algos.StoSOO import StoSOO
from PyXAB.algos.SequOOL import SequOOL
from PyXAB.algos.StroquOOL import StroquOOL
from PyXAB.algos.VROOM import VROOM
from PyXAB.algos.Zooming import Zooming

from . import recorder as R

_KCACHE = {}


def partition_class(kind, K):
    """a class usable as `partition=` argument: called as partition(domain=..., node=...)"""
    if kind == "bin":
        return BinaryPartition
    if kind == "rbin":
        return RandomBinaryPartition
    if kind == "dbin":
        return DimensionBinaryPartition
    if K == 3:
        # the library's own default arity: hand over the class itself, as a user would (state kept on the class object is then
        # shared by every instance of the process)
        return KaryPartition if kind == "kary" else RandomKaryPartition
    key = (kind, K)
    if key not in _KCACHE:
        base = KaryPartition if kind == "kary" else RandomKaryPartition

        class KP(base):
            _K = K

            def __init__(self, domain=None, node=P_node):
                super(KP, self).__init__(domain=domain, K=self._K, node=node)

        KP.__name__ = "%s_K%d" % (base.__name__, K)
        _KCACHE[key] = KP
    return _KCACHE[key]


def arity(kind, K, D):
    if kind in ("bin", "rbin"):
        return 2
    if kind == "dbin":
        return 2 ** D
    return K


PART_KINDS = [("bin", 2), ("rbin", 2), ("dbin", 2), ("kary", 2), ("kary", 3), ("kary", 4), ("kary", 5), ("rkary", 2), ("rkary", 3), ("rkary", 4), ("rkary", 5)]

BASE_ALGOS = {"T_HOO": T_HOO, "HCT": HCT, "VHCT": VHCT}

ALGO_NAMES = [
    "T_HOO", "HCT", "VHCT", "POO", "GPO", "PCT", "VPCT", "DOO", "SOO", "StoSOO", "SequOOL", "StroquOOL", "VROOM", "Zooming",
]


def build(name, part, dom, n, prm, base_cls=None):
    """construct algorithm `name`; prm holds the documented parameters (defaults when absent)"""
    g = prm.get
    if name == "T_HOO":
        return T_HOO(nu=g("nu", 1), rho=g("rho", 0.5), rounds=n, domain=dom, partition=part)
    if name == "HCT":
        return HCT(nu=g("nu", 1), rho=g("rho", 0.5), c=g("c", 0.1), delta=g("delta", 0.01), domain=dom, partition=part)
    if name == "VHCT":
        return VHCT(nu=g("nu", 1), rho=g("rho", 0.5), c=g("c", 0.1), delta=g("delta", 0.01), bound=g("bound", 1), domain=dom, partition=part)
    if name == "POO":
        return POO(numax=g("numax", 1), rhomax=g("rhomax", 0.9), rounds=n, domain=dom, partition=part, algo=base_cls or BASE_ALGOS[g("base", "T_HOO")])
    if name == "GPO":
        return GPO(numax=g("numax", 1.0), rhomax=g("rhomax", 0.9), rounds=n, domain=dom, partition=part, algo=base_cls or BASE_ALGOS[g("base", "T_HOO")])
    if name == "PCT":
        return PCT(numax=g("numax", 1), rhomax=g("rhomax", 0.9), rounds=n, domain=dom, partition=part)
    if name == "VPCT":
        return VPCT(numax=g("numax", 1), rhomax=g("rhomax", 0.9), rounds=n, domain=dom, partition=part)
    if name == "DOO":
        if "delta_fn" in prm:
            return DOO(n=n, delta=prm["delta_fn"], domain=dom, partition=part)
        return DOO(n=n, domain=dom, partition=part)
    if name == "SOO":
        return SOO(n=n, h_max=g("h_max", 100), domain=dom, partition=part)
    if name == "StoSOO":
        return StoSOO(n=n, k=g("k", None), h_max=g("h_max", 100), delta=g("delta", None), domain=dom, partition=part)
    if name == "SequOOL":
        return SequOOL(n=n, domain=dom, partition=part)
    if name == "StroquOOL":
        return StroquOOL(n=n, domain=dom, partition=part)
    if name == "VROOM":
        return VROOM(n=n, h_max=g("h_max", 100), b=g("b", 1), f_max=g("f_max", 1), domain=dom, partition=part)
    if name == "Zooming":
        return Zooming(nu=g("nu", 1), rho=g("rho", 0.9), domain=dom, partition=part)
    raise KeyError(name)


# ---------------------------------------------------------------------------
# reward sources (functions of round number and point; deterministic given the seed)
def reward_source(pattern, seed, RU=64):
    rnd = random.Random(seed)
    if pattern == "neg":
        return lambda t, x: -rnd.randint(1, 4 * RU) / RU
    if pattern == "const":
        return lambda t, x: 0.25
    if pattern == "zero":
        return lambda t, x: 0.0
    if pattern == "tied":
        return lambda t, x: rnd.choice([0.0, 0.5, 0.5, 1.0])
    if pattern == "noisy":
        return lambda t, x: rnd.random() * 2 - 0.5
    if pattern == "huge":
        return lambda t, x: rnd.choice([-1e9, 1e9, 3.5e8, -2e8, 0.0])
    if pattern == "tiny":
        return lambda t, x: rnd.choice([1e-300, -1e-300, 5e-301, 0.0])
    if pattern == "grid01":
        return lambda t, x: rnd.randint(0, RU) / RU
    if pattern == "gridpm":
        return lambda t, x: rnd.randint(-2 * RU, 2 * RU) / RU
    if pattern == "bern":
        return lambda t, x: float(rnd.randint(0, 1))
    if pattern in ("ramp", "rampdown"):   # monotone in the first coordinate: greedy searches hug a face of the box
        sgn = 1.0 if pattern == "ramp" else -1.0
        return lambda t, x: sgn * float(x[0]) if isinstance(x, (list, tuple)) and len(x) else 0.0
    if pattern == "climb":   # rewards that keep growing with time: the newest cell is always the most promising, the tree gains a level every few rounds
        return lambda t, x: 10.0 * t
    if pattern == "peak":  # a smooth objective of the relative position + grid noise, rounded to the grid
        def f(t, x):
            return 0.0
        return f
    raise KeyError(pattern)


def peak_reward(rel, rnd, RU, noise=True):
    """grid-valued reward from the relative position of the point in the box (1e-20 units)"""
    v = 1.0
    for r in rel:
        u = r / float(1 << 30)
        v -= abs(u - 0.3137) * 0.9
    if noise:
        v += (rnd.random() - 0.5) * 0.2
    return round(v * RU) / RU
