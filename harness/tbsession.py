# -*- coding: utf-8 -*-
"""Grid-mode sessions of T_HOO / HCT / VHCT with the per-cell evidence extractor (algorithm level)."""
import copy
import random
import traceback
import warnings

import numpy as np

from . import algos as A
from . import recorder as R
from . import consts as K

SPEC_NAME = {"T_HOO": "THOO", "HCT": "HCT", "VHCT": "VHCT"}


def extractor(S, RU, vhct, roff=0.0):
    """roff: the session's rewards are roff + (grid value); evidence, mean, U and B are logged relative to roff.  T-HOO, HCT and
    VHCT are equivariant under a translation of the rewards (means, U and B move by roff; counts, variances, widths, thresholds
    and every arg-max stay), so the specification is evaluated on the relative values."""
    def f(n):
        tot = 0
        sq = 0
        for r in n.rewards:
            v = (r - roff) * RU
            iv = int(round(v))
            if iv != v:
                return (R.NANC,) * 9
            tot += iv
            sq += iv * iv
        return (
            R.capint(n.visited_times), tot, sq, len(n.rewards), R.fx(n.mean_reward - roff if n.rewards else n.mean_reward, S), R.fx(n.u_value - roff, S), R.fx(n.b_value - roff, S),
            R.fx(n.variance, S) if vhct else 0, R.capint(n.tau) if vhct else 0,
        )
    return f


def tables(cfg):
    prm = cfg.get("prm", {})
    g = prm.get
    name = cfg["algo"]
    RU = cfg.get("RU", 64 if name != "VHCT" else 16)
    rmax = cfg.get("rmax", 1.0)
    if name == "T_HOO":
        return K.tb_consts("THOO", g("nu", 1), g("rho", 0.5), rounds=cfg["n"], RU=RU, maxcnt=cfg.get("T", cfg["n"]) + 8, rmax=rmax, resolve=bool(cfg.get("resolve")))
    return K.tb_consts(SPEC_NAME[name], g("nu", 1), g("rho", 0.5), c=g("c", 0.1), delta=g("delta", 0.01), bound=g("bound", 1), RU=RU, maxcnt=cfg.get("T", cfg["n"]) + 8, rmax=rmax)


def run_tb(cfg):
    try:
        return _run(cfg)
    except Exception:
        return {"id": cfg["id"], "machinery": traceback.format_exc()}


def grid_reward(pat, rnd, RU, pt, box):
    if pat == "g01":
        return rnd.randint(0, RU) / RU
    if pat == "bern":
        return float(rnd.randint(0, 1))
    if pat == "gneg":
        return -rnd.randint(0, RU) / RU
    if pat == "const":
        return 0.5
    if pat == "tied":
        return rnd.choice([0.0, 0.5, 0.5, 1.0])
    if pat == "ints":          # a graded objective: integer-valued rewards (handed over as int / numpy int by the drivers)
        return float(rnd.randint(0, 3))
    if pat == "spike" and rnd.random() < 0.2:      # a smooth objective with occasional 0/1 outliers: within-cell variance rises and falls
        return float(rnd.randint(0, 1))
    D = len(box)
    rel = [int((pt[x] - box[x][0]) / (box[x][1] - box[x][0]) * (1 << 30)) for x in range(D)]
    v = A.peak_reward(rel, rnd, RU, noise=(pat == "peak"))
    return min(1.0, max(0.0, v))


def _run(cfg):
    warnings.simplefilter("ignore")
    np.seterr(all="ignore")
    np.random.seed(cfg["seed"] % (2 ** 32))
    name = cfg["algo"]
    tabs = cfg.get("tabs") or tables(cfg)
    if tabs is None or tabs.get("amb"):
        return {"id": cfg["id"], "skipped": "unrepresentable or ambiguous constants"}
    D = cfg["D"]
    box = [list(map(float, b)) for b in cfg["box"]]
    dom = [list(b) for b in box]
    before = copy.deepcopy(dom)
    part = A.partition_class(cfg["kind"], cfg["K"])
    n, T = cfg["n"], cfg.get("T", cfg["n"])
    P = {"kind": cfg["kind"], "K": cfg["K"], "D": D, "metric": "rank", "arity": A.arity(cfg["kind"], cfg["K"], D), "algo": SPEC_NAME[name], "tol": cfg.get("tol", 5), "tolv": cfg.get("tolv", 6)}
    P.update({k: v for k, v in tabs.items() if k != "amb"})
    S, RU = tabs["S"], tabs["RU"]
    algo = A.build(name, part, dom, n, cfg.get("prm", {}))
    roff = float(cfg.get("roff", 0.0))
    rec = R.SessionRec(algo, P, extractor=extractor(S, RU, name == "VHCT", roff), tid=cfg["id"], call_timeout=cfg.get("timeout", 30))
    rnd = random.Random(cfg["seed"] + 3)
    t0 = cfg.get("t0", 1)
    queries = set(cfg.get("queries", ()))
    script = cfg.get("rewards")  # explicit reward units (replay of a TLC behaviour)
    midq = set(cfg.get("midq", ()))
    for i in range(T):
        pt = rec.pull(t0 + i)
        if rec.failed:
            break
        if i in midq:
            rec.glp()
            if rec.failed:
                break
        if script is not None:
            ru = script[i]
            r = ru / RU
        else:
            r = grid_reward(cfg["pattern"], rnd, RU, pt, box)
            ru = int(round(r * RU))
        if roff:
            r0, r = r, roff + r
            if r - roff != r0:
                raise RuntimeError("reward offset %r does not keep the grid value %r exact" % (roff, r0))
        rec.recv(t0 + i, R.cast_reward(r, cfg.get("rtype")), rcode=ru)
        if rec.failed:
            break
        if i in queries:
            rec.glp()
            if rec.failed:
                break
    if not rec.failed:
        rec.glp()
    rec.end(before, dom)
    tr = rec.finalize(extra_boxes=[tuple((b[0], b[1]) for b in box)])
    tr["cfg"] = {"algo": name, "kind": cfg["kind"], "K": cfg["K"], "D": D, "n": n, "T": T, "seed": cfg["seed"], "pattern": cfg.get("pattern", "script"), "roff": cfg.get("roff", 0), "prm": {k: v for k, v in cfg.get("prm", {}).items() if isinstance(v, (int, float, str))}, "box": cfg["box"]}
    return tr
