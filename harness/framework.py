# -*- coding: utf-8 -*-
"""Check framework: accumulates TLC model-checking runs, trace batches and verdicts for one
property, attributes failing clauses to properties, applies the known-findings list, writes the
evidence file and produces the exit code."""
import json
import os
import re
import sys
import time

from . import common as C

# which property each verdict clause belongs to (first match wins, longest prefixes first)
CLAUSE_PROP = [
    ("call.hangs", "C01"), ("call.raises", "C01"), ("call.not-a-point", "C01"), ("call.outside-box", "C01"),
    ("ctor.raises", "C01"), ("mk.raises", "C01"), ("mk.hangs", "C01"),
    ("mk.arity", "C02"), ("mk.tiling", "C02"), ("mk.centre", "C02"), ("mk.widths", "C02"), ("mk.cuts", "C02"),
    ("mk.replay-mismatch", "C02"), ("init.tiling", "C02"), ("init.centre", "C02"), ("init.widths", "C02"),
    ("init.rootbox", "C02"),
    ("mk.guard-leaf", "C03"), ("mk.ids", "C03"), ("mk.labels", "C03"), ("mk.kids-foreign-change", "C03"),
    ("mk.depth", "C03"), ("mk.layers", "C03"), ("mk.anomaly", "C03"), ("mk.unknown-parent", "C03"),
    ("mk.no-tree", "C03"), ("init.struct", "C03"), ("init.order", "C03"), ("init.ids", "C03"),
    ("init.anomaly", "C03"), ("call.struct-change", "C03"), ("final.struct-change", "C03"), ("final.struct", "C03"),
    ("final.outside-root", "C01"),
    ("end.domain-mutated", "C14"),
    ("credit", "C04"), ("stats", "C04"),
    ("pull.", "C05"), ("index.", "C05"),
    ("grow.", "C06"),
    ("rec.", "C07"),
    ("sweep.", "C08"),
    ("gpo.", "C09"),
    ("poo.", "C10"),
    ("zoom.", "C11"),
    ("seq.", "C12"),
    ("vroom.", "C13"),
    ("pair.", None),
]
# clauses that several properties own (checked by each of them)
ALSO = {"mk.arity": {"C02", "C03"},      # a cell with another number of children than its class documents cannot carry the labels K(i-1)+1..Ki
        "mk.guard-leaf": {"C03", "C06", "C08", "C12"}, "mk.guard-leaf.evidence-discarded": {"C03", "C04", "C06", "C08", "C12"}, "mk.kids-foreign-change": {"C03", "C06"}, "grow.not-fresh": {"C04", "C06"}, "grow.init-not-fresh": {"C04", "C06"},
        "sweep.new-cell-not-fresh": {"C04", "C08"}, "seq.new-cell-not-fresh": {"C04", "C12"}}


def clause_props(clause):
    if clause in ALSO:
        return ALSO[clause]
    for pre, p in CLAUSE_PROP:
        if clause.startswith(pre):
            return {p} if p else set()
    return set()


class Check:
    def __init__(self, prop, tier, level="model_checking"):
        self.prop = prop
        self.tier = tier
        self.level = level
        self.t0 = time.time()
        self.wd = C.rundir("%s_%s" % (prop, tier))
        self.states = 0
        self.transitions = 0
        self.traces_validated = 0
        self.evaluations = 0
        self.nontrivial = set()
        self.samples = []
        self.violations = []  # (signature dict, replay path)
        self.known_hits = {}
        self.truncated = {}  # other property's clause -> count
        self.notes = {}
        self.mc_runs = []
        self.cmds = []
        self.assumptions = []
        self.trusted = ["TLC 1.8 (tla2tools.jar) and the CommunityModules Json/IOUtils overrides", "harness/recorder.py (projection of the object graph onto the trace vocabulary)"]
        self.exhaustive = False
        self.extra_cov = {}

    # -- model checking -----------------------------------------------------------
    def write_cfg(self, name, constants=None, invariants=(), properties=(), constraints=(), spec="Spec", extra=""):
        p = os.path.join(self.wd, name + ".cfg")
        with open(p, "w") as f:
            f.write("SPECIFICATION %s\n" % spec)
            if constants:
                f.write("CONSTANTS\n")
                for k, v in constants.items():
                    if isinstance(v, bool):
                        v = "TRUE" if v else "FALSE"
                    elif isinstance(v, str) and not v.startswith("<<") and not v.startswith("{") and not v.startswith("["):
                        v = '"%s"' % v
                    f.write("  %s = %s\n" % (k, v))
            for i in invariants:
                f.write("INVARIANT %s\n" % i)
            for i in properties:
                f.write("PROPERTY %s\n" % i)
            for i in constraints:
                f.write("CONSTRAINT %s\n" % i)
            f.write("CHECK_DEADLOCK FALSE\n")
            f.write(extra)
        return p

    def mc(self, module, cfgpath, label, simulate=None, workers=None, timeout=3000, coverage=False, count=True, heap="8g", more=()):
        extra = (["-coverage", "1"] if coverage else []) + list(more)
        r = C.run_tlc(module, cfgpath, self.wd, workers=workers or min(C.NCPU, 12), timeout=timeout, simulate=simulate, extra=extra, heap=heap)
        if count:
            self.states += r.distinct
            self.transitions += r.generated
        self.cmds.append(r.cmd)
        rec = {"label": label, "module": module, "distinct_states": r.distinct, "states_generated": r.generated, "wall_s": round(r.wall, 1), "result": "ok" if r.ok else "violated:" + str(r.violation)}
        if coverage:
            cov = C.tlc_coverage(r.stdout)
            rec["action_coverage"] = {k: v[1] for k, v in cov.items()}
        self.mc_runs.append(rec)
        if r.violation:
            path = os.path.join(C.OUT, "replay", "%s_mc_%s.txt" % (self.prop, label))
            os.makedirs(os.path.dirname(path), exist_ok=True)
            with open(path, "w") as f:
                f.write(r.cmd + "\n" + r.stdout)
            self.violations.append(({"source": "model", "label": label, "invariant": r.violation}, path))
        return r

    # -- trace validation -----------------------------------------------------------
    def validate(self, module, cfg, traces, name, own=None, workers=None, chunk=300, sigfn=None, nontrivial=None):
        """validate traces; attribute failures.  own: set of clause prefixes this property owns
        (default: by CLAUSE_PROP).  Returns verdict dict."""
        good = []
        for tr in traces:
            if "machinery" in tr:
                raise C.Machinery("driver failed for trace %s:\n%s" % (tr.get("id"), tr["machinery"]))
            good.append(tr)
        verdicts, st, ds, cmd = C.validate_traces(module, cfg, good, self.wd, name, workers=workers, chunk=chunk)
        self.states += ds
        self.transitions += st
        self.cmds.append(cmd)
        self.traces_validated += len(good)
        self.evaluations += len(good)
        for tr in good:
            v = verdicts[tr["id"]]
            clause, line, n = v[0], v[1], v[2]
            if len(v) > 3:
                # a second (soft) clause was met earlier on the same trace: report the one this property owns
                def owned(cl):
                    return (self.prop in clause_props(cl)) if own is None else (any(cl.startswith(o) for o in own) or self.prop in ALSO.get(cl, ()))
                pairs = []
                for a in v[3].split("|"):
                    nm, _, at = a.partition("@")
                    pairs.append((nm, int(at) if at.lstrip("-").isdigit() else None))
                alts = [nm for nm, _ in pairs]
                mine = [(nm, at) for nm, at in pairs if owned(nm)]
                if not owned(clause) and mine:
                    clause = mine[0][0]
                    if mine[0][1] is not None:
                        line = mine[0][1]
                for a in alts:
                    if not owned(a):
                        sec = self.notes.setdefault("secondary_clauses_not_owned_by_this_property", {})
                        sec[a] = sec.get(a, 0) + 1
            if clause == "ok":
                if nontrivial is None or nontrivial(tr):
                    self.nontrivial.add(trace_key(tr))
                continue
            owners = clause_props(clause) if own is None else ({self.prop} if (any(clause.startswith(o) for o in own) or self.prop in ALSO.get(clause, ())) else clause_props(clause) - {self.prop})
            if clause in ("protocol", "unknown-event", "replay.script"):
                raise C.Machinery("trace %s rejected with machinery clause %s at event %d" % (tr["id"], clause, line))
            if self.prop in owners:
                sig = dict(tr.get("cfg", {}))
                sig.update({"clause": clause, "module": module})
                if sigfn:
                    sig.update(sigfn(tr, clause, line))
                k = C.match_known(self.prop, sig)
                if k:
                    self.known_hits.setdefault(k["id"], [k, 0])[1] += 1
                else:
                    path = os.path.join(C.OUT, "replay", "%s_%s_%s.json" % (self.prop, name, tr["id"]))
                    os.makedirs(os.path.dirname(path), exist_ok=True)
                    with open(path, "w") as f:
                        json.dump({"module": module, "cfg": cfg, "verdict": [clause, line], "trace": tr}, f)
                    sig["event"] = line
                    self.violations.append((sig, path))
            else:
                key = "%s(%s)" % (clause, ",".join(sorted(p for p in owners if p)) or "?")
                self.truncated[key] = self.truncated.get(key, 0) + 1
        return verdicts

    def sample(self, obj):
        if len(self.samples) < 6:
            self.samples.append(obj)

    # -- finish ---------------------------------------------------------------------
    def finish(self, rule, explanation=""):
        wall = time.time() - self.t0
        cov = {
            "states": self.states,
            "transitions": self.transitions,
            "traces_validated_against_impl": self.traces_validated,
            "samples": self.samples or ["(no sample recorded)"],
            "evaluations": max(self.evaluations, 1),
            "distinct_nontrivial": len(self.nontrivial),
            "rule": rule,
            "checker_cmd": self.cmds[0] if self.cmds else "",
            "trusted_base": self.trusted,
            "exhaustive": False,     # the check as a whole samples executions; only its TLC model runs are exhaustive
            "model_runs_enumerate_their_finite_state_space_completely": self.exhaustive,
            "model_runs": self.mc_runs,
            "known_findings_hit": {k: v[1] for k, v in self.known_hits.items()},
            "traces_cut_short_by_another_propertys_clause": self.truncated,
            "explanation": explanation,
        }
        # vacuity report: actions of a model that were never taken in a run (an invariant about them was not exercised there);
        # an action counts as exercised by the check if some run of the same module takes it
        never, taken = {}, {}
        for r in self.mc_runs:
            for a, cnt in (r.get("action_coverage") or {}).items():
                taken.setdefault(r["module"], set())
                if cnt > 0:
                    taken[r["module"]].add(a)
        for r in self.mc_runs:
            z = sorted(a for a, cnt in (r.get("action_coverage") or {}).items() if cnt == 0)
            if z:
                never[r["label"]] = z
        cov["model_actions_never_taken_per_run"] = never
        cov["model_actions_never_taken_in_any_run"] = {m: sorted({a for r in self.mc_runs if r["module"] == m for a in (r.get("action_coverage") or {})} - t) for m, t in taken.items()}
        cov.update(self.extra_cov)
        cov.update(self.notes)
        C.write_evidence(self.prop, self.tier, self.level, cov, wall, len(self.violations), self.assumptions)
        for k, (f, cnt) in sorted(self.known_hits.items()):
            print("KNOWN-FINDING: property=%s %s [%s, %d occurrence(s) in this run]" % (self.prop, f["what"], k, cnt))
        if self.truncated:
            print("note: %s" % ", ".join("%d trace(s) stopped at %s" % (v, k) for k, v in sorted(self.truncated.items())))
        print("%s %s: states=%d transitions=%d traces=%d nontrivial=%d wall=%.1fs" % (self.prop, self.tier, self.states, self.transitions, self.traces_validated, len(self.nontrivial), wall))
        if self.violations:
            seen = set()
            for sig, path in self.violations[:25]:
                print("VIOLATION property=%s replay=%s  %s" % (self.prop, path, json.dumps(sig, sort_keys=True, default=str)[:400]))
            if len(self.violations) > 25:
                print("... %d more violations" % (len(self.violations) - 25))
            return 1
        print("OK property=%s" % self.prop)
        return 0


def trace_key(tr):
    """identity of an encoded trace for the distinct count"""
    return hash(json.dumps(tr["ev"], sort_keys=True, default=str))


def count_mk(tr):
    return sum(1 for e in tr["ev"] if e.get("k") == "mk")


def parse_behaviours(stdout):
    """BEHAVIOUR tuples printed by an Emit invariant -> list of python objects"""
    out = []
    for t in C.split_tuples(stdout, "BEHAVIOUR"):
        m = re.match(r'<<\s*"BEHAVIOUR",\s*"(.*)"\s*>>\s*$', t, re.S)
        if not m:
            raise C.Machinery("unparsable behaviour %r" % t[:200])
        s = m.group(1).replace('\\"', '"').replace("\\\\", "\\")
        out.append(json.loads(s))
    return out
