# -*- coding: utf-8 -*-
"""run one session in a fresh interpreter (used with different PYTHONHASHSEED values): cfg.json -> trace.json"""
import json
import sys

from . import session

if __name__ == "__main__":
    cfgs = json.load(open(sys.argv[1]))
    out = [session.run_session(c) for c in cfgs]
    json.dump(out, open(sys.argv[2], "w"))
