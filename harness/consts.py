# -*- coding: utf-8 -*-
"""gen_consts: integer constant tables for the TLA+ specifications, computed from the *published*
formulas in 60-digit decimal arithmetic (never by calling the library).

The specifications work in fixed point with scale S; every transcendental ingredient is a
configuration constant and is supplied as a table.  Where a real value is within 1e-9 of a
discontinuity of ceil/floor or of a branch condition the table entry is reported as ambiguous
(`amb`) and the drivers skip/redraw that configuration, so the specification never has to guess.
"""
from decimal import Decimal, getcontext, ROUND_FLOOR, ROUND_CEILING, ROUND_HALF_EVEN
from fractions import Fraction

getcontext().prec = 60
BIG = 1900000000
EPS = Decimal("1e-9")


def D(x):
    """exact decimal value of a float / int"""
    if isinstance(x, Decimal):
        return x
    if isinstance(x, int):
        return Decimal(x)
    f = Fraction(float(x))
    return Decimal(f.numerator) / Decimal(f.denominator)


def ln(x):
    return D(x).ln()


def dpow(b, e):
    return (D(e) * D(b).ln()).exp()


def near_int(x):
    """within 1e-9 of an integer but not (to 1e-35) an integer: the value of ceil/floor is numerically fragile"""
    r = x.to_integral_value(rounding=ROUND_HALF_EVEN)
    d = abs(x - r)
    return Decimal("1e-35") <= d < EPS * max(Decimal(1), abs(x))


def snap(x):
    """a value that is an integer to 35 digits is that integer (ln 256 / ln 2 = 8 exactly in the published formula)"""
    r = x.to_integral_value(rounding=ROUND_HALF_EVEN)
    return r if abs(x - r) < Decimal("1e-35") else x


def dceil(x):
    return int(x.to_integral_value(rounding=ROUND_CEILING))


def dfloor(x):
    return int(x.to_integral_value(rounding=ROUND_FLOOR))


def mant15(y):
    """positive decimal y as [m, e] with y ~ m * 2^e and 2^14 <= m < 2^15 (floating representation for the 32-bit spec)"""
    y = D(y)
    if y <= 0:
        return [0, 0]
    e = 0
    while y >= 32768:
        y /= 2
        e += 1
    while y < 16384:
        y *= 2
        e -= 1
    return [int(y), e]


def fxr(x, S):
    v = D(x) * S
    if v >= BIG:
        return BIG
    if v <= -BIG:
        return -BIG
    return int(v.to_integral_value(rounding=ROUND_HALF_EVEN))


# ---------------------------------------------------------------------------
def gpo_consts(n, rhomax, S=1 << 20):
    """N = ceil(0.5 Dmax ln((n/2)/ln(n/2))), half = floor(n/(2N)), rho_i = rhomax^(2N/(2i+1))"""
    dmax = ln(2) / ln(1 / D(rhomax))
    x = Decimal("0.5") * dmax * ((D(n) / 2) / ln(D(n) / 2)).ln()
    amb = near_int(x)
    N = dceil(x)
    if N < 1:
        return {"N": N, "half": 0, "amb": amb, "rho": []}
    half = n // (2 * N)
    rho = [fxr(dpow(rhomax, Decimal(2 * N) / Decimal(2 * i + 1)), S) for i in range(1, min(N, 400) + 1)]
    return {"N": N, "half": half, "amb": amb, "rho": rho, "S": S}


def poo_consts(rhomax, kmax=8, S=1 << 20, nmax=1 << 22):
    """thr[k] = least n (multiple of N = 2^k, n >= N) with N <= 0.5 Dmax ln(n/ln n); BIG if none below nmax.
    rho[k][p] = rhomax^(2N/(2p+1)), p = 0..N-1"""
    c = Decimal("0.5") * ln(2) / ln(1 / D(rhomax))
    thr = [0]
    amb = False
    for k in range(1, kmax + 1):
        N = 1 << k
        # smallest multiple m*N; f is non-decreasing over even n >= 2, so bisection on m
        def ok(n):
            v = c * (D(n) / ln(n)).ln() - N
            return v
        lo, hi = 1, max(2, nmax // N)
        if ok(hi * N) < 0:
            thr.append(BIG)
            continue
        while lo < hi:
            mid = (lo + hi) // 2
            if ok(mid * N) >= 0:
                hi = mid
            else:
                lo = mid + 1
        v = ok(lo * N)
        if abs(v) < EPS * N or (lo > 1 and abs(ok((lo - 1) * N)) < EPS * N):
            amb = True
        thr.append(lo * N)
    rho = []
    for k in range(1, kmax + 1):
        N = 1 << k
        rho.append([fxr(dpow(rhomax, Decimal(2 * N) / Decimal(2 * p + 1)), S) for p in range(N)] if k <= 7 else [])
    return {"thr": thr, "rho": rho, "amb": amb, "S": S, "kmax": kmax}


# ---------------------------------------------------------------------------
def tb_consts(algo, nu, rho, rounds=None, c=None, delta=None, bound=None, H=48, KE=13, RU=64, maxcnt=600, rmax=1.0, resolve=False):
    """tables for TreeBandit.tla.  Returns None if the configuration cannot be represented
    (delta~ not below 1/2, fixed point would overflow, a table entry ambiguous)."""
    nu, rho = D(nu), D(rho)
    out = {"amb": 0}
    for Sexp in (13, 12, 11, 10, 9):
        S = 1 << Sexp
        ok = True
        # mean: |sum| * S must stay below 2^31
        if maxcnt * rmax * RU * S >= 2 ** 31 - 1:
            ok = False
        nurho = [fxr(nu * dpow(rho, h), S) for h in range(H + 1)]
        if nurho[0] >= 10 ** 9:
            ok = False
        tabs = {}
        if algo == "THOO":
            w2 = D(2) * ln(rounds) * S * S
            if w2 >= Decimal(15) * 10 ** 8:
                ok = False
            tabs["w2"] = int(w2.to_integral_value(rounding=ROUND_HALF_EVEN))
            x = (ln(rounds) / 2 - ln(1 / nu)) / ln(1 / rho)
            # within 1e-9 of an integer the library's float evaluation is fragile; by default such configurations are
            # skipped.  resolve=True (deliberate boundary tests) takes the exact value of the published formula on
            # the given floats: 60 digits resolve it unless it is an integer to 35 digits, which snap() makes exact.
            if near_int(x) and not resolve:
                out["amb"] = 1
            tabs["dbound"] = dceil(snap(x))
        else:
            c_, delta_ = D(c), D(delta)
            c1 = dpow(rho / (3 * nu), Decimal(1) / 8)
            if c1 * delta_ >= Decimal("0.5"):
                return None
            c2l, c2ls, b3, tau, tauy = [], [], [], [], []
            for k in range(KE + 1):
                dt = c1 * delta_ / (1 << k)
                L = (1 / dt).ln()
                v = c_ * c_ * L
                if v * S * S >= Decimal(15) * 10 ** 8:
                    ok = False
                c2l.append(int((v * S * S).to_integral_value(rounding=ROUND_HALF_EVEN)))
                c2ls.append(int((v * S).to_integral_value(rounding=ROUND_HALF_EVEN)))
                if algo == "VHCT":
                    bb = 3 * D(bound) * v * S
                    if bb >= Decimal(15) * 10 ** 8:
                        ok = False
                    b3.append(int(bb.to_integral_value(rounding=ROUND_HALF_EVEN)))
                    tauy.append([mant15(v * dpow(rho, -2 * h) / (nu * nu) * S) for h in range(H + 1)])
                row = [0]
                for h in range(1, H + 1):
                    t = v * dpow(rho, -2 * h) / (nu * nu)
                    if t < 10 ** 7 and near_int(t):
                        out["amb"] = 1
                    row.append(min(BIG, dceil(t)) if t < BIG else BIG)
                tau.append(row)
            tabs.update({"c2l": c2l, "tau": tau})
            if algo == "VHCT":
                # 2*var*c2ls must fit: var <= rmax^2 S
                if 2 * (rmax * rmax * S + 1) * max(c2ls) >= 2 ** 31 - 1:
                    ok = False
                # the variance floor 1e-3 must be resolved to 1/16 (8 units): the tolerance of the Bernstein width
                # (TolU in Trace_TreeBandit) is derived for that resolution; coarser scales are "not representable"
                if fxr(Decimal("0.001"), S) < 8:
                    ok = False
                # second moments: sum of squares (units 1/RU^2) times S must stay below 2^31
                if maxcnt * (rmax * RU) ** 2 * S >= 2 ** 31 - 1:
                    ok = False
                tabs.update({"c2ls": c2ls, "b3": b3, "vmin": fxr(Decimal("0.001"), S), "nb": [fxr(3 * D(bound) * nu * dpow(rho, h), S) for h in range(H + 1)], "tauy": tauy, "sexp": Sexp})
        if ok:
            out.update(tabs)
            out.update({"S": S, "RU": RU, "nurho": nurho})
            return out
    return None
