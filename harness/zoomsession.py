# -*- coding: utf-8 -*-
"""Grid-mode sessions of Zooming with the arm table (arm -> cell, pulls, mean) diffed after every call."""
import copy
import random
import traceback
import warnings

import numpy as np

from . import algos as A
from . import recorder as R
from . import consts as K
from .tbsession import grid_reward

S = 2048


def run_zoom(cfg):
    try:
        return _run(cfg)
    except Exception:
        return {"id": cfg["id"], "machinery": traceback.format_exc()}


class ArmTable:
    def __init__(self, algo, tree):
        self.algo, self.tree = algo, tree
        self.objs = []  # arm objects in first-seen order
        self.last = {}

    def idx(self, arm):
        for i, o in enumerate(self.objs):
            if o is arm:
                return i + 1
        self.objs.append(arm)
        return len(self.objs)

    def diff(self, ev):
        new, chg, pts = [], [], []
        seen = set()
        for arm, node in list(self.algo.active_points.items()):
            known = any(o is arm for o in self.objs)
            i = self.idx(arm)
            seen.add(i)
            row = (self.tree.ident(node), R.capint(self.algo.pulled_times.get(arm, -1)), R.fx(self.algo.average_rewards.get(arm, float("nan")), S))
            if not known:
                new.append([i] + list(row))
                try:
                    pts.append(tuple(float(v) for v in arm.get_point()))
                except Exception:
                    pts.append(None)
            elif self.last.get(i) != row:
                chg.append([i] + list(row))
            self.last[i] = row
        gone = [i for i in self.last if i not in seen]
        ev["an"], ev["ac"], ev["pts"], ev["agone"] = new, chg, pts, gone
        for i in gone:
            self.last.pop(i, None)

    def which(self, pt):
        try:
            key = tuple(float(v) for v in pt)
        except Exception:
            return []
        out = []
        for arm in self.algo.active_points.keys():
            try:
                if tuple(float(v) for v in arm.get_point()) == key:
                    out.append(self.idx(arm))
            except Exception:
                pass
        return sorted(out)


def _run(cfg):
    warnings.simplefilter("ignore")
    np.seterr(all="ignore")
    np.random.seed(cfg["seed"] % (2 ** 32))
    RU = cfg.get("RU", 16)
    D = cfg["D"]
    box = [list(map(float, b)) for b in cfg["box"]]
    dom = [list(b) for b in box]
    before = copy.deepcopy(dom)
    part = A.partition_class(cfg["kind"], cfg["K"])
    n, T = cfg["n"], cfg.get("T", cfg["n"])
    prm = dict(cfg.get("prm", {}))
    nu, rho = prm.get("nu", 1), prm.get("rho", 0.9)
    nurho = [K.fxr(K.D(nu) * K.dpow(rho, h), S) for h in range(400)]
    P = {"kind": cfg["kind"], "K": cfg["K"], "D": D, "metric": "rank", "arity": A.arity(cfg["kind"], cfg["K"], D), "algo": "Zooming", "S": S, "RU": RU, "nurho": nurho, "band": cfg.get("band", 6)}
    algo = A.build("Zooming", part, dom, n, prm)
    rec = R.SessionRec(algo, P, tid=cfg["id"], call_timeout=cfg.get("timeout", 30))
    arms = ArmTable(algo, rec.tree)
    arms.diff(rec.events[0])
    rnd = random.Random(cfg["seed"] + 3)
    t0 = cfg.get("t0", 1)
    queries = set(cfg.get("queries", ()))
    midq = set(cfg.get("midq", ()))
    for i in range(T):
        pt = rec.pull(t0 + i)
        if rec.failed:
            break
        rec.events[-1]["best"] = arms.which(pt)
        arms.diff(rec.events[-1])
        if i in midq:
            pt2 = rec.glp()
            if rec.failed:
                break
            rec.events[-1]["best"] = arms.which(pt2)
            arms.diff(rec.events[-1])
        r = grid_reward(cfg["pattern"], rnd, RU, pt, box)
        rec.recv(t0 + i, R.cast_reward(r, cfg.get("rtype")), rcode=int(round(r * RU)))
        if rec.failed:
            break
        arms.diff(rec.events[-1])
        if i in queries:
            pt = rec.glp()
            if rec.failed:
                break
            rec.events[-1]["best"] = arms.which(pt)
            arms.diff(rec.events[-1])
    if not rec.failed:
        pt = rec.glp()
        if not rec.failed:
            rec.events[-1]["best"] = arms.which(pt)
            arms.diff(rec.events[-1])
    rec.end(before, dom)
    tr = rec.finalize(extra_boxes=[tuple((b[0], b[1]) for b in box)])
    tr["cfg"] = {"algo": "Zooming", "kind": cfg["kind"], "K": cfg["K"], "D": D, "n": n, "T": T, "seed": cfg["seed"], "pattern": cfg["pattern"], "prm": {k: v for k, v in prm.items() if isinstance(v, (int, float, str))}, "box": cfg["box"]}
    tr["arms"] = len(arms.objs)
    return tr
